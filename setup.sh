#!/bin/sh
# Build the gvc verifier from files on disk only (offline).
set -e
cd "$(dirname "$0")/gvc"
export PATH=/opt/veriftools/go1.26.8/bin:$PATH GOTOOLCHAIN=local GOFLAGS=-mod=mod GOPROXY=off GOSUMDB=off
go build -o ../bin/gvc .
