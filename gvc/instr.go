package main

// Instruction-level translation.

import (
	"sort"
	"fmt"
	"go/token"
	"go/types"
	"strings"

	"golang.org/x/tools/go/ssa"
)

func (u *Unit) execBlock(fn *ssa.Function, n *node, st *State) *retInfo {
	n.out = st
	n.conds = make([]Term, len(n.b.Succs))
	for i := range n.conds {
		n.conds[i] = "true"
	}
	dead := u.eng.deadInstrs(fn)
	for _, ins := range n.b.Instrs {
		if dead[ins] {
			continue
		}
		switch x := ins.(type) {
		case *ssa.Phi, *ssa.DebugRef:
			continue
		case *ssa.If:
			c := u.val(st, x.Cond)
			n.conds[0] = c
			n.conds[1] = not(c)
		case *ssa.Jump:
		case *ssa.Return:
			vals := make([]Term, len(x.Results))
			for i, r := range x.Results {
				vals[i] = u.val(st, r)
			}
			return &retInfo{st: st, vals: vals, pos: x.Pos(), blk: n.b.Index, node: n.seen}
		case *ssa.Panic:
			// an explicit panic ends the path; it is not an obligation (only run-time panics of
			// indexing, nil dereference, conversions ... are)
			u.note("explicit panic(...) calls terminate the path and are not proof obligations")
			st.dead = true
			return nil
		default:
			u.execInstr(fn, st, ins)
		}
	}
	return nil
}

func isUnsigned(t types.Type) bool {
	b, ok := t.Underlying().(*types.Basic)
	return ok && b.Info()&types.IsUnsigned != 0
}

func isString(t types.Type) bool {
	b, ok := t.Underlying().(*types.Basic)
	return ok && b.Info()&types.IsString != 0
}

func (u *Unit) execInstr(fn *ssa.Function, st *State, ins ssa.Instruction) {
	switch x := ins.(type) {
	case *ssa.Alloc:
		elemT := derefNamed(x.Type())
		r := u.newRef(st, x.Name())
		lv := u.lvForPointer(r, elemT)
		u.store(st, lv, u.ty.zero(elemT))
		st.regs[x] = r
	case *ssa.FieldAddr:
		base := u.lvOf(st, x.X)
		if base.kind == lvObj {
			u.safety(st, "nilderef", not(eq(base.ref, "0")), x.Pos())
		}
		st.lvs[x] = u.fieldLV(base, x.Field)
	case *ssa.Field:
		stt := u.structOf(x.X.Type())
		if u.ty.isOpaqueStruct(x.X.Type()) {
			unsupp("field of opaque struct value")
		}
		u.setReg(st, x, sx(u.ty.selName(u.ty.sortOf(x.X.Type()), stt.Field(x.Field).Name()), u.val(st, x.X)))
	case *ssa.IndexAddr:
		u.indexAddr(st, x)
	case *ssa.Index:
		xt := x.X.Type().Underlying()
		switch xt.(type) {
		case *types.Array:
			u.setReg(st, x, sx("select", u.val(st, x.X), u.val(st, x.Index)))
		default:
			unsupp("index on %s", x.X.Type())
		}
	case *ssa.UnOp:
		u.unop(st, x)
	case *ssa.BinOp:
		u.binop(st, x)
	case *ssa.Store:
		lv := u.lvOf(st, x.Addr)
		if lv.kind == lvObj || lv.kind == lvBox {
			u.safety(st, "nilderef", not(eq(lv.ref, "0")), x.Pos())
		}
		u.store(st, lv, u.val(st, x.Val))
	case *ssa.Extract:
		tup, ok := st.tups[x.Tuple]
		if !ok {
			unsupp("extract from unknown tuple %s", x.Tuple.Name())
		}
		st.regs[x] = tup[x.Index]
	case *ssa.Call:
		u.call(st, x, x.Common(), x)
	case *ssa.Defer:
		u.deferCall(fn, st, x)
	case *ssa.RunDefers:
		u.runDefers(fn, st)
	case *ssa.MakeInterface:
		u.setReg(st, x, u.ty.mkIfc(x.X.Type(), u.val(st, x.X)))
	case *ssa.ChangeInterface:
		st.regs[x] = u.val(st, x.X)
	case *ssa.ChangeType:
		if lv, ok := st.lvs[x.X]; ok {
			st.lvs[x] = lv
			return
		}
		if u.ty.sortOf(x.Type()) != u.ty.sortOf(x.X.Type()) {
			unsupp("changetype %s -> %s", x.X.Type(), x.Type())
		}
		st.regs[x] = u.val(st, x.X)
	case *ssa.Convert:
		u.convert(st, x)
	case *ssa.TypeAssert:
		u.typeAssert(st, x)
	case *ssa.Slice:
		u.sliceOp(st, x)
	case *ssa.MakeSlice:
		et := x.Type().Underlying().(*types.Slice).Elem()
		if isBytesType(x.Type()) {
			st.regs[x] = u.s.fresh("mkbytes", SBytes)
			return
		}
		r := u.newRef(st, "mkslice")
		hn, hs := u.elemHeap(et)
		h := u.heap(st, hn, hs)
		u.setHeapTracked(st, hn, hs, sx("store", h, r, u.ty.constArray(SInt, u.ty.sortOf(et), u.ty.zero(et))), r, true)
		ln, cp := u.val(st, x.Len), u.val(st, x.Cap)
		u.safety(st, "makeslice", and(sx(">=", ln, "0"), sx(">=", cp, ln)), x.Pos())
		u.setReg(st, x, sx("mk_slc", r, "0", ln, cp))
	case *ssa.MakeMap:
		r := u.newRef(st, "mkmap")
		mt := x.Type().Underlying().(*types.Map)
		dn, ds, vn, vs := u.mapHeaps(x.Type())
		u.setHeapTracked(st, dn, ds, sx("store", u.heap(st, dn, ds), r, fmt.Sprintf("((as const %s) false)", arrSort(u.ty.sortOf(mt.Key()), SBool))), r, true)
		_ = vn
		_ = vs
		st.regs[x] = r
	case *ssa.Lookup:
		u.lookup(st, x)
	case *ssa.MapUpdate:
		mt := x.Map.Type().Underlying().(*types.Map)
		m := u.val(st, x.Map)
		u.safety(st, "nilmap", not(eq(m, "0")), x.Pos())
		dn, ds, vn, vs := u.mapHeaps(x.Map.Type())
		k, v := u.val(st, x.Key), u.val(st, x.Value)
		_ = mt
		dh, vh := u.heap(st, dn, ds), u.heap(st, vn, vs)
		// tracked: a loop that writes a map must have the map's heaps havocked at its header
		u.setHeapTracked(st, dn, ds, sx("store", dh, m, sx("store", sx("select", dh, m), k, "true")), m, false)
		u.setHeapTracked(st, vn, vs, sx("store", vh, m, sx("store", sx("select", vh, m), k, v)), m, false)
	case *ssa.MakeClosure:
		// closures are values identified by their function; bindings kept aside
		f := x.Fn.(*ssa.Function)
		id := u.s.fresh("closure_"+f.Name(), SInt)
		st.regs[x] = id
		u.closures[id] = x
		// the function a closure value was made from is part of the value (functional options are recognised by it)
		u.s.declFun("closure_fn", []Sort{SInt}, SInt)
		u.s.assume(eq(sx("closure_fn", id), intLit(u.eng.funcID(f))))
		// closure values are negative; plain function values (literals without free variables) are their function ids
		u.s.assume(sx("<", id, "0"))
		// the values a closure captured are part of the closure value (binding k of sort S: closure_b$S(id, k))
		for k, b := range x.Bindings {
			if _, isLV := st.lvs[b]; isLV {
				continue
			}
			bt, ok := st.regs[b]
			if !ok {
				if c, isC := b.(*ssa.Const); isC {
					bt = u.constTerm(c)
				} else {
					continue
				}
			}
			srt := u.ty.sortOf(b.Type())
			// a variable captured by reference (its cell is what is bound): the closure value carries the cell's
			// content at the time the closure is made (option constructors never assign their parameters afterwards)
			if al, isAlloc := b.(*ssa.Alloc); isAlloc {
				elemT := derefNamed(al.Type())
				if _, isStruct := elemT.Underlying().(*types.Struct); !isStruct {
					bt = u.load(st, u.lvForPointer(bt, elemT))
					srt = u.ty.sortOf(elemT)
				}
			}
			fn := "closure_b$" + mangle(string(srt))
			u.s.declFun(fn, []Sort{SInt, SInt}, srt)
			u.s.assume(eq(sx(fn, id, intLit(int64(k))), bt))
		}
	case *ssa.Range:
		u.rangeInit(st, x)
	case *ssa.Next:
		u.rangeNext(st, x)
	case *ssa.Go, *ssa.Select, *ssa.Send, *ssa.MakeChan:
		unsupp("concurrency instruction %T", ins)
	default:
		unsupp("instruction %T", ins)
	}
}

func (u *Unit) elemHeap(elemT types.Type) (string, Sort) {
	name := "HS$" + typeKey(elemT)
	if isRefLike(elemT) {
		u.refHeaps[name] = true
	}
	return name, arrSort(SInt, arrSort(SInt, u.ty.sortOf(elemT)))
}

func (u *Unit) mapHeaps(mapT types.Type) (string, Sort, string, Sort) {
	mt := mapT.Underlying().(*types.Map)
	k := typeKey(mt)
	ks, vs := u.ty.sortOf(mt.Key()), u.ty.sortOf(mt.Elem())
	if isRefLike(mt.Elem()) {
		u.refHeaps["HMv$"+k] = true
	}
	return "HMd$" + k, arrSort(SInt, arrSort(ks, SBool)), "HMv$" + k, arrSort(SInt, arrSort(ks, vs))
}

func (u *Unit) indexAddr(st *State, x *ssa.IndexAddr) {
	idx := u.val(st, x.Index)
	switch t := x.X.Type().Underlying().(type) {
	case *types.Slice:
		if isBytesType(x.X.Type()) {
			unsupp("indexing a byte slice (bytes are abstract values)")
		}
		s := u.val(st, x.X)
		u.safety(st, "index", and(sx(">=", idx, "0"), sx("<", idx, sx("slc_len", s))), x.Pos())
		hn, hs := u.elemHeap(t.Elem())
		st.lvs[x] = &LV{kind: lvElem, heap: hn, sort: hs, ref: sx("slc_arr", s), idx: sx("ix", sx("slc_off", s), idx), cellT: t.Elem(), ty: t.Elem()}
	case *types.Pointer:
		arr, ok := t.Elem().Underlying().(*types.Array)
		if !ok {
			unsupp("indexaddr on %s", x.X.Type())
		}
		u.safety(st, "index", and(sx(">=", idx, "0"), sx("<", idx, intLit(arr.Len()))), x.Pos())
		hn, hs := u.elemHeap(arr.Elem())
		st.lvs[x] = &LV{kind: lvElem, heap: hn, sort: hs, ref: u.val(st, x.X), idx: idx, cellT: arr.Elem(), ty: arr.Elem()}
	default:
		unsupp("indexaddr on %s", x.X.Type())
	}
}

func (u *Unit) unop(st *State, x *ssa.UnOp) {
	switch x.Op {
	case token.MUL: // load
		lv := u.lvOf(st, x.X)
		if lv.kind == lvObj || lv.kind == lvBox {
			u.safety(st, "nilderef", not(eq(lv.ref, "0")), x.Pos())
		}
		if lv.kind == lvGlobal {
			if c, ok := u.eng.constGlobal(u, x.X.(*ssa.Global)); ok {
				st.regs[x] = c
				return
			}
		}
		v := u.load(st, lv)
		u.setReg(st, x, v)
		u.s.assume(implies(st.reach, u.ty.rangeFact(st.regs[x], x.Type(), u.alloc(st))))
	case token.NOT:
		st.regs[x] = not(u.val(st, x.X))
	case token.SUB:
		st.regs[x] = sx("-", u.val(st, x.X))
	default:
		unsupp("unop %s", x.Op)
	}
}

func (u *Unit) binop(st *State, x *ssa.BinOp) {
	a, b := u.val(st, x.X), u.val(st, x.Y)
	t := x.X.Type()
	var r Term
	switch x.Op {
	case token.ADD:
		if isString(t) {
			r = sx("sconcat", a, b)
		} else {
			r = sx("+", a, b)
		}
	case token.SUB:
		r = sx("-", a, b)
		if isUnsigned(t) {
			u.safety(st, "underflow", sx(">=", a, b), x.Pos())
		}
	case token.MUL:
		r = sx("*", a, b)
	case token.QUO:
		u.safety(st, "divzero", not(eq(b, "0")), x.Pos())
		r = sx("div", a, b)
	case token.REM:
		u.safety(st, "divzero", not(eq(b, "0")), x.Pos())
		r = sx("mod", a, b)
	case token.EQL, token.NEQ:
		r = u.equal(t, a, b)
		if x.Op == token.NEQ {
			r = not(r)
		}
	case token.LSS:
		r = u.cmp(t, "<", a, b)
	case token.LEQ:
		r = u.cmp(t, "<=", a, b)
	case token.GTR:
		r = u.cmp(t, ">", a, b)
	case token.GEQ:
		r = u.cmp(t, ">=", a, b)
	case token.AND, token.OR, token.XOR, token.SHL, token.SHR, token.AND_NOT:
		// bit operations: uninterpreted
		fn := "bitop$" + mangle(x.Op.String())
		u.s.declFun(fn, []Sort{SInt, SInt}, SInt)
		r = sx(fn, a, b)
	default:
		unsupp("binop %s", x.Op)
	}
	u.setReg(st, x, r)
}

func (u *Unit) cmp(t types.Type, op string, a, b Term) Term {
	if isString(t) {
		u.s.declFun("str_lt", []Sort{SStr, SStr}, SBool)
		switch op {
		case "<":
			return sx("str_lt", a, b)
		case ">":
			return sx("str_lt", b, a)
		case "<=":
			return not(sx("str_lt", b, a))
		default:
			return not(sx("str_lt", a, b))
		}
	}
	return sx(op, a, b)
}

// equal implements Go's == for the modelled sorts.
func (u *Unit) equal(t types.Type, a, b Term) Term {
	t = types.Unalias(t)
	if isBytesType(t) {
		// only comparison with nil is legal on slices
		if a == "bnil" || b == "bnil" {
			return eq(a, b)
		}
		unsupp("slice comparison")
	}
	switch t.Underlying().(type) {
	case *types.Slice:
		if a == "(mk_slc 0 0 0 0)" {
			return eq(sx("slc_arr", b), "0")
		}
		if b == "(mk_slc 0 0 0 0)" {
			return eq(sx("slc_arr", a), "0")
		}
		unsupp("slice comparison")
	case *types.Interface:
		if a == "(mk_ifc 0 0)" {
			return eq(sx("ifc_tag", b), "0")
		}
		if b == "(mk_ifc 0 0)" {
			return eq(sx("ifc_tag", a), "0")
		}
	}
	return eq(a, b)
}

func (u *Unit) convert(st *State, x *ssa.Convert) {
	from, to := x.X.Type(), x.Type()
	fs, ts := u.ty.sortOf(from), u.ty.sortOf(to)
	v := u.val(st, x.X)
	switch {
	case fs == ts:
		if fs == SInt && isUnsigned(to) && !isUnsigned(from) {
			u.safety(st, "convneg", sx(">=", v, "0"), x.Pos())
		}
		st.regs[x] = v
	case fs == "Real" && ts == SInt:
		st.regs[x] = sx("to_int", v)
	case fs == SInt && ts == "Real":
		st.regs[x] = sx("to_real", v)
	case fs == SStr && ts == SBytes:
		st.regs[x] = sx("s2b", v)
	case fs == SBytes && ts == SStr:
		st.regs[x] = sx("b2s", v)
	default:
		unsupp("convert %s -> %s", from, to)
	}
}

func (u *Unit) typeAssert(st *State, x *ssa.TypeAssert) {
	v := u.val(st, x.X)
	tag := sx("ifc_tag", v)
	var ok Term
	var res Term
	if it, isIfc := x.AssertedType.Underlying().(*types.Interface); isIfc {
		// implements-table over the tags known to the program
		ok = u.eng.implementsTerm(u, tag, it, x.AssertedType)
		res = v
	} else {
		ok = eq(tag, intLit(u.ty.tagOf(x.AssertedType)))
		res = u.ty.fromIfc(x.AssertedType, v)
	}
	if x.CommaOk {
		okc := u.s.define("ta_ok", SBool, ok)
		zero := u.ty.zero(x.AssertedType)
		st.tups[x] = []Term{u.s.define("ta_v", u.ty.sortOf(x.AssertedType), ite(okc, res, zero)), okc}
		return
	}
	u.safety(st, "typeassert", ok, x.Pos())
	u.setReg(st, x, res)
}

func (u *Unit) sliceOp(st *State, x *ssa.Slice) {
	xt := x.X.Type()
	// whole-slice of a package-level byte array: an immutable constant byte string
	if g, ok := x.X.(*ssa.Global); ok && x.Low == nil && x.High == nil {
		if at, ok := derefNamed(g.Type()).Underlying().(*types.Array); ok {
			if b, ok := at.Elem().Underlying().(*types.Basic); ok && b.Kind() == types.Uint8 && !u.eng.mutableGlobals[g] {
				name := "gbytes$" + mangle(g.Pkg.Pkg.Path()+"."+g.Name())
				if !u.s.declared["c:"+name] {
					u.s.declConst(name, SBytes)
					u.s.assumeGlobal(eq(sx("blen", name), intLit(at.Len())))
				}
				st.regs[x] = name
				return
			}
		}
	}
	if isBytesType(xt) || isString(xt) {
		if x.Low == nil && x.High == nil {
			st.regs[x] = u.val(st, x.X)
			return
		}
		// sub-slicing of abstract byte strings: uninterpreted
		lo, hi := "0", ""
		v := u.val(st, x.X)
		srt := u.ty.sortOf(xt)
		lenf := "blen"
		if srt == SStr {
			lenf = "slen"
		}
		if x.Low != nil {
			lo = u.val(st, x.Low)
		}
		if x.High != nil {
			hi = u.val(st, x.High)
		} else {
			hi = sx(lenf, v)
		}
		u.safety(st, "slicebounds", and(sx("<=", "0", lo), sx("<=", lo, hi), sx("<=", hi, sx(lenf, v))), x.Pos())
		fnm := "sub$" + string(srt)
		u.s.declFun(fnm, []Sort{srt, SInt, SInt}, srt)
		r := sx(fnm, v, lo, hi)
		u.setReg(st, x, r)
		u.s.assume(implies(st.reach, eq(sx(lenf, st.regs[x]), sx("-", hi, lo))))
		return
	}
	var arr, off, ln, cp Term
	switch t := xt.Underlying().(type) {
	case *types.Slice:
		s := u.val(st, x.X)
		arr, off, ln, cp = sx("slc_arr", s), sx("slc_off", s), sx("slc_len", s), sx("slc_cap", s)
	case *types.Pointer:
		a := t.Elem().Underlying().(*types.Array)
		arr, off, ln, cp = u.val(st, x.X), "0", intLit(a.Len()), intLit(a.Len())
	default:
		unsupp("slice of %s", xt)
	}
	lo, hi := "0", ln
	if x.Low != nil {
		lo = u.val(st, x.Low)
	}
	if x.High != nil {
		hi = u.val(st, x.High)
	}
	mx := cp
	if x.Max != nil {
		mx = u.val(st, x.Max)
		u.safety(st, "slicebounds", and(sx("<=", hi, mx), sx("<=", mx, cp)), x.Pos())
	}
	u.safety(st, "slicebounds", and(sx("<=", "0", lo), sx("<=", lo, hi), sx("<=", hi, cp)), x.Pos())
	u.setReg(st, x, sx("mk_slc", arr, sx("+", off, lo), sx("-", hi, lo), sx("-", mx, lo)))
}

func (u *Unit) lookup(st *State, x *ssa.Lookup) {
	switch t := x.X.Type().Underlying().(type) {
	case *types.Map:
		m := u.val(st, x.X)
		k := u.val(st, x.Index)
		dn, ds, vn, vs := u.mapHeaps(x.X.Type())
		has := and(not(eq(m, "0")), sx("select", sx("select", u.heap(st, dn, ds), m), k))
		v := ite(has, sx("select", sx("select", u.heap(st, vn, vs), m), k), u.ty.zero(t.Elem()))
		vv := u.s.define("lookup", u.ty.sortOf(t.Elem()), v)
		u.s.assume(implies(st.reach, u.ty.rangeFact(vv, t.Elem(), u.alloc(st))))
		if x.CommaOk {
			st.tups[x] = []Term{vv, u.s.define("has", SBool, has)}
		} else {
			st.regs[x] = vv
		}
	default:
		unsupp("lookup on %s", x.X.Type())
	}
}

// ---------------------------------------------------------------------------
// range over maps (ghost visited set) -- slices use index loops in SSA

type rangeState struct {
	mapRef  Term
	mapT    types.Type
	visited string // heap name of the visited set
}

func (u *Unit) rangeInit(st *State, x *ssa.Range) {
	mt, ok := x.X.Type().Underlying().(*types.Map)
	if !ok {
		unsupp("range over %s", x.X.Type())
	}
	ks := u.ty.sortOf(mt.Key())
	name := fmt.Sprintf("visited$%s$%s", u.curFn.Name(), x.Name())
	u.heapSort[name] = arrSort(ks, SBool)
	st.heaps[name] = fmt.Sprintf("((as const %s) false)", arrSort(ks, SBool))
	u.ranges[x] = &rangeState{mapRef: u.val(st, x.X), mapT: x.X.Type(), visited: name}
	st.regs[x] = "0"
}

func (u *Unit) rangeNext(st *State, x *ssa.Next) {
	rs, ok := u.ranges[x.Iter]
	if !ok {
		unsupp("next on unknown iterator")
	}
	mt := rs.mapT.Underlying().(*types.Map)
	ks := u.ty.sortOf(mt.Key())
	dn, ds, vn, vs := u.mapHeaps(rs.mapT)
	dom := sx("select", u.heap(st, dn, ds), rs.mapRef)
	vis := u.heap(st, rs.visited, arrSort(ks, SBool))
	k := u.s.fresh("rangekey", ks)
	okc := u.s.fresh("rangeok", SBool)
	// ok <=> some key of dom is unvisited; the key is in dom and unvisited
	u.s.assume(implies(st.reach, implies(okc, and(sx("select", dom, k), not(sx("select", vis, k)), not(eq(rs.mapRef, "0"))))))
	u.s.assume(implies(st.reach, implies(not(okc), fmt.Sprintf("(forall ((k %s)) (! (=> (select %s k) (select %s k)) :pattern ((select %s k))))", ks, dom, vis, vis))))
	u.s.assume(implies(st.reach, implies(eq(rs.mapRef, "0"), not(okc))))
	// tracked: the set of visited keys is loop-carried state (havocked at the header of the ranging loop)
	u.setHeapTracked(st, rs.visited, arrSort(ks, SBool), ite(okc, sx("store", vis, k, "true"), vis), "", false)
	v := u.s.define("rangeval", u.ty.sortOf(mt.Elem()), sx("select", sx("select", u.heap(st, vn, vs), rs.mapRef), k))
	u.s.assume(implies(st.reach, u.ty.rangeFact(v, mt.Elem(), u.alloc(st))))
	u.s.assume(implies(st.reach, u.ty.rangeFact(k, mt.Key(), u.alloc(st))))
	st.tups[x] = []Term{okc, k, v}
}

func (u *Unit) isNoopCall(c *ssa.CallCommon) bool {
	if f := c.StaticCallee(); f != nil {
		name := f.String()
		if strings.HasPrefix(name, "(*sync.") || strings.HasPrefix(name, "(sync.") {
			return true
		}
	}
	return false
}

// ---------------------------------------------------------------------------
// defer: a deferred call is recorded with its argument values and a boolean flag ("this defer statement was
// executed on the current path"); at RunDefers the recorded calls run in reverse order, each under its flag.

type deferRec struct {
	ins  *ssa.Defer
	flag string
	vals map[ssa.Value]Term
	lvs  map[ssa.Value]*LV
}

func (u *Unit) deferCall(fn *ssa.Function, st *State, x *ssa.Defer) {
	c := x.Common()
	if u.isNoopCall(c) {
		return
	}
	if f := c.StaticCallee(); f != nil && !strings.Contains(f.String(), modulePath) {
		u.note("deferred external call %s: assumed to write no modelled state", f.String())
		return
	}
	for _, l := range findLoops(fn) {
		if l.blocks[x.Block()] {
			unsupp("defer inside a loop in %s", fn.Name())
		}
	}
	if u.defers == nil {
		u.defers = map[*ssa.Function][]*deferRec{}
	}
	for _, d := range u.defers[fn] {
		if d.ins == x {
			unsupp("defer executed twice in %s", fn.Name())
		}
	}
	rec := &deferRec{ins: x, flag: fmt.Sprintf("defer$%s$%d", mangle(fn.Name()), len(u.defers[fn])), vals: map[ssa.Value]Term{}, lvs: map[ssa.Value]*LV{}}
	capture := func(v ssa.Value) {
		if v == nil {
			return
		}
		switch v.(type) {
		case *ssa.Const, *ssa.Function, *ssa.Builtin, *ssa.Global:
			return
		}
		if lv, ok := st.lvs[v]; ok {
			rec.lvs[v] = lv
			return
		}
		if t, ok := st.regs[v]; ok {
			rec.vals[v] = t
		}
	}
	capture(c.Value)
	for _, a := range c.Args {
		capture(a)
	}
	// the flag is false unless this statement ran
	u.heapSort[rec.flag] = SBool
	init := u.s.declConst(rec.flag+"@0", SBool)
	u.s.assumeGlobal(not(init))
	st.heaps[rec.flag] = "true"
	u.defers[fn] = append(u.defers[fn], rec)
}

func (u *Unit) runDefers(fn *ssa.Function, st *State) {
	recs := u.defers[fn]
	for i := len(recs) - 1; i >= 0; i-- {
		rec := recs[i]
		flag, ok := st.heaps[rec.flag]
		if !ok || flag == "false" {
			continue
		}
		bst := st.clone()
		bst.reach = and(st.reach, flag)
		for v, t := range rec.vals {
			bst.regs[v] = t
		}
		for v, lv := range rec.lvs {
			bst.lvs[v] = lv
		}
		u.call(bst, nil, rec.ins.Common(), rec.ins)
		// merge the heaps back under the flag
		names := map[string]bool{}
		for k := range bst.heaps {
			names[k] = true
		}
		var ns []string
		for k := range names {
			ns = append(ns, k)
		}
		sort.Strings(ns)
		for _, k := range ns {
			a := bst.heaps[k]
			b, has := st.heaps[k]
			if !has {
				b = u.heap(st, k, u.heapSort[k])
			}
			if a == b {
				continue
			}
			if flag == "true" {
				st.heaps[k] = a
				continue
			}
			c := u.s.fresh(k, u.heapSort[k])
			u.s.assume(eq(c, ite(flag, a, b)))
			st.heaps[k] = c
		}
	}
}
