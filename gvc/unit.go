package main

// One verification unit = one function under contract.

import (
	"fmt"
	"go/token"
	"go/types"
	"sort"
	"strings"

	"golang.org/x/tools/go/ssa"
)

type modRec struct {
	sort     Sort
	nonFresh bool
}

func (eng *Engine) newUnit(fn *ssa.Function, con *Contract, pass1 bool, loopMods map[string]map[string]*modRec) *Unit {
	s := newScript()
	s.decls = append(s.decls, basePrelude)
	for _, f := range basePreludeFacts {
		s.assume(f)
	}
	u := &Unit{eng: eng, s: s, ty: newTypes(s), top: fn, con: con, heapSort: map[string]Sort{}, notes: map[string]bool{}, siteN: map[string]int{},
		closures: map[Term]*ssa.MakeClosure{}, ranges: map[ssa.Value]*rangeState{}, pass1: pass1, loopMods: loopMods, refBirth: map[Term]map[string]bool{}, prefixDone: map[string]bool{}, refHeaps: map[string]bool{}}
	if u.loopMods == nil {
		u.loopMods = map[string]map[string]*modRec{}
	}
	return u
}

func (u *Unit) resultNames(con *Contract, sig *types.Signature) []string {
	n := sig.Results().Len()
	names := make([]string, n)
	for i := 0; i < n; i++ {
		if con != nil && i < len(con.Results) {
			names[i] = con.Results[i]
		} else if nm := sig.Results().At(i).Name(); nm != "" && nm != "_" {
			names[i] = nm
		} else {
			names[i] = fmt.Sprintf("r%d", i)
		}
	}
	return names
}

func (u *Unit) paramNames(fn *ssa.Function, sig *types.Signature, isIface bool) []string {
	var names []string
	if fn != nil {
		for i, p := range fn.Params {
			nm := p.Name()
			if nm == "" || nm == "_" {
				nm = fmt.Sprintf("p%d", i)
			}
			names = append(names, nm)
		}
		return names
	}
	if isIface {
		names = append(names, "self")
	} else if sig.Recv() != nil {
		nm := sig.Recv().Name()
		if nm == "" {
			nm = "self"
		}
		names = append(names, nm)
	}
	for i := 0; i < sig.Params().Len(); i++ {
		nm := sig.Params().At(i).Name()
		if nm == "" || nm == "_" {
			nm = fmt.Sprintf("p%d", i)
		}
		names = append(names, nm)
	}
	return names
}

func (eng *Engine) contractPkg(con *Contract) *types.Package { return eng.pkgByPath(con.PkgPath) }

// verify generates all obligations of the unit's function.
func (u *Unit) verify() (err error) {
	defer func() {
		if r := recover(); r != nil {
			if us, ok := r.(unsupported); ok {
				err = fmt.Errorf("outside subset: %s", us.msg)
				return
			}
			panic(r)
		}
	}()
	fn := u.top
	con := u.con
	st := &State{reach: "true", regs: map[ssa.Value]Term{}, tups: map[ssa.Value][]Term{}, lvs: map[ssa.Value]*LV{}, heaps: map[string]Term{}}
	u.curFn = fn
	u.heapSort["alloc"] = SInt
	alloc0 := u.alloc(st)
	u.s.assume(sx(">=", alloc0, "0"))
	for _, p := range fn.Params {
		c := u.s.declConst("p$"+mangle(p.Name()), u.ty.sortOf(p.Type()))
		st.regs[p] = c
		u.s.assume(u.ty.rangeFact(c, p.Type(), alloc0))
	}
	u.entry = st.clone()
	for _, l := range con.Uses {
		if l == "ixshift" {
			u.s.assumeGlobal(ixShiftFact)
		}
	}
	pkg := u.eng.contractPkg(con)
	// axioms
	u.assumeAxioms(st)
	// preconditions
	env := u.newEnv(st, u.entry, fn, pkg)
	for _, c := range con.Requires {
		u.s.assume(env.evalBool(c.Expr))
	}
	for _, c := range con.BoundReq {
		u.s.assume(env.evalBool(c.Expr))
		u.note("bounded proof of %s holds under the stated bound: %s", con.Key, c.Expr)
	}
	for _, c := range con.InAssumed {
		u.s.assume(env.evalBool(c.Expr))
		u.note("input well-formedness assumed (not checked at call sites) for %s: %s", con.Key, c.Expr)
	}
	u.nRequiresFacts = len(u.s.facts)
	if con.Trusted {
		return nil
	}
	out, _ := u.execBody(fn, st, true)
	// postconditions per return site
	names := u.resultNames(con, fn.Signature)
	for _, r := range u.retInfos {
		site := fmt.Sprintf("ret%d", r.blk)
		u.s.curTag = r.node
		u.curAnc = u.nodeAnc[r.node]
		env := u.newEnv(r.st, u.entry, fn, pkg)
		for i, nm := range names {
			env.vars[nm] = TV{T: r.vals[i], Ty: fn.Signature.Results().At(i).Type()}
		}
		if len(names) == 1 {
			env.vars["result"] = env.vars[names[0]]
		}
		for _, c := range con.Ensures {
			goal := env.evalBool(c.Expr)
			o := u.oblige(r.st, "post", c.Label, site, goal, r.pos)
			o.Props = c.Props
		}
		for _, a := range con.Assigns {
			if strings.HasPrefix(a, "ghost ") {
				if name := strings.TrimSpace(a[6:]); u.eng.monotone[name] {
					u.oblige(r.st, "post", "monotone$"+name, site, sx(">=", u.heap(r.st, "g$"+name, SInt), u.heap(u.entry, "g$"+name, SInt)), r.pos)
				}
			}
		}
	}
	// frame: checked once, on the state merged over all return sites (one obligation per heap instead of one per
	// heap and return site; same strength: the merged heap is the return-condition-guarded choice of the site heaps)
	if con.HasFrame && len(u.retInfos) > 0 && out != nil && !out.dead {
		u.s.curTag = u.retInfos[len(u.retInfos)-1].node
		all := map[int]bool{}
		for _, r := range u.retInfos {
			for k := range u.nodeAnc[r.node] {
				all[k] = true
			}
		}
		u.curAnc = all
		u.frameObligations(retInfo{st: out, pos: u.retInfos[len(u.retInfos)-1].pos, blk: -1}, con, pkg)
	}
	return nil
}

func (u *Unit) assumeAxioms(st *State) {
	for _, ax := range u.eng.axioms {
		if !u.eng.pkgReaches(u.con.PkgPath, ax.PkgPath) {
			continue
		}
		pkg := u.eng.pkgByPath(ax.PkgPath)
		env := u.newEnv(st, st, nil, pkg)
		func() {
			defer func() {
				if r := recover(); r != nil {
					if us, ok := r.(unsupported); ok {
						panic(unsupported{fmt.Sprintf("axiom %s: %s", ax.Name, us.msg)})
					}
					panic(r)
				}
			}()
			u.s.assume(env.evalBool(ax.Expr))
		}()
		u.note("axiom %s (%s)", ax.Name, strings.TrimPrefix(ax.PkgPath, modulePath+"/"))
	}
}

func (u *Unit) evalSpecBool(expr string, st *State, fn *ssa.Function, l *loopInfo) Term {
	if expr == "@rangeupper" {
		// compiler-generated range loop: header is  i = phi; j = i+1; if j < n
		var phi *ssa.Phi
		for _, ins := range l.header.Instrs {
			if p, ok := ins.(*ssa.Phi); ok && p.Comment == "rangeindex" {
				phi = p
			}
		}
		if iff, ok := l.header.Instrs[len(l.header.Instrs)-1].(*ssa.If); ok && phi != nil {
			if cmp, ok := iff.Cond.(*ssa.BinOp); ok && cmp.Op == token.LSS {
				if add, ok := cmp.X.(*ssa.BinOp); ok && add.X == phi {
					if n, ok := st.regs[cmp.Y]; ok {
						return sx("<", st.regs[phi], n)
					}
					if c, ok := cmp.Y.(*ssa.Const); ok {
						return sx("<", st.regs[phi], u.constTerm(c))
					}
				}
			}
		}
		return "true"
	}
	pkg := fnPkg(fn)
	env := u.newEnv(st, u.entry, fn, pkg)
	env.loop = l
	env.hdr = l.headerState
	if env.hdr == nil {
		env.hdr = st
	}
	return env.evalBool(expr)
}

func (u *Unit) evalSpecInt(expr string, st *State, fn *ssa.Function, l *loopInfo) Term {
	env := u.newEnv(st, u.entry, fn, fnPkg(fn))
	env.loop = l
	return env.eval(parseSpecExpr(expr)).T
}

// ---------------------------------------------------------------------------
// frames

type assignLoc struct {
	kind  string // field | allfield | freshfield | elems | map | ghost | global | everything
	heap  []string
	sorts []Sort
	ref   Term
}

func (u *Unit) parseAssign(env *Env, a string) assignLoc {
	a = strings.TrimSpace(a)
	switch {
	case a == "everything":
		return assignLoc{kind: "everything"}
	case strings.HasPrefix(a, "fresh(") || strings.HasPrefix(a, "all("):
		kind := "allfield"
		if strings.HasPrefix(a, "fresh(") {
			kind = "freshfield"
		}
		inner := a[strings.Index(a, "(")+1 : len(a)-1]
		// T.f  or elems(T) or map(T)
		if strings.HasPrefix(inner, "elems ") {
			t := u.eng.resolveTypeString(strings.TrimSpace(inner[6:]), env.pkg)
			hn, hs := u.elemHeap(t)
			return assignLoc{kind: kind, heap: []string{hn}, sorts: []Sort{hs}}
		}
		if strings.HasPrefix(inner, "map ") {
			t := u.eng.resolveTypeString(strings.TrimSpace(inner[4:]), env.pkg)
			dn, ds, vn, vs := u.mapHeaps(t)
			return assignLoc{kind: kind, heap: []string{dn, vn}, sorts: []Sort{ds, vs}}
		}
		i := strings.LastIndex(inner, ".")
		t := u.eng.resolveTypeString(inner[:i], env.pkg)
		fname := inner[i+1:]
		st := u.structOf(t)
		if fname == "*" {
			var hs []string
			var ss []Sort
			for k := 0; k < st.NumFields(); k++ {
				hs = append(hs, u.fieldHeapName(t, st.Field(k).Name()))
				ss = append(ss, arrSort(SInt, u.ty.sortOf(st.Field(k).Type())))
				if isRefLike(st.Field(k).Type()) {
					u.refHeaps[u.fieldHeapName(t, st.Field(k).Name())] = true
				}
			}
			return assignLoc{kind: kind, heap: hs, sorts: ss}
		}
		for k := 0; k < st.NumFields(); k++ {
			if st.Field(k).Name() == fname {
				if isRefLike(st.Field(k).Type()) {
					u.refHeaps[u.fieldHeapName(t, fname)] = true
				}
				return assignLoc{kind: kind, heap: []string{u.fieldHeapName(t, fname)}, sorts: []Sort{arrSort(SInt, u.ty.sortOf(st.Field(k).Type()))}}
			}
		}
		specErr("assigns: no field %s", a)
	case strings.HasPrefix(a, "elems("):
		v := env.eval(parseSpecExpr(a[6 : len(a)-1]))
		hn, hs := u.elemHeap(v.Ty.Underlying().(*types.Slice).Elem())
		return assignLoc{kind: "elems", heap: []string{hn}, sorts: []Sort{hs}, ref: sx("slc_arr", v.T)}
	case strings.HasPrefix(a, "map("):
		v := env.eval(parseSpecExpr(a[4 : len(a)-1]))
		dn, ds, vn, vs := u.mapHeaps(v.Ty)
		return assignLoc{kind: "map", heap: []string{dn, vn}, sorts: []Sort{ds, vs}, ref: v.T}
	case strings.HasPrefix(a, "ghost "):
		name := strings.TrimSpace(a[6:])
		g, ok := u.eng.ghosts[name]
		if !ok {
			specErr("assigns: unknown ghost %s", name)
		}
		t := u.eng.resolveTypeString(g.Type, u.eng.pkgByPath(g.PkgPath))
		return assignLoc{kind: "ghost", heap: []string{"g$" + name}, sorts: []Sort{u.ty.sortOf(t)}}
	case strings.HasPrefix(a, "global "):
		name := strings.TrimSpace(a[7:])
		tv := env.eval(parseSpecExpr(name))
		_ = tv
		obj := env.pkg.Scope().Lookup(name)
		g := u.eng.globalFor(obj.(*types.Var))
		return assignLoc{kind: "global", heap: []string{"G$" + mangle(g.Pkg.Pkg.Path()+"."+g.Name())}, sorts: []Sort{u.ty.sortOf(derefNamed(g.Type()))}}
	}
	// p.f
	i := strings.LastIndex(a, ".")
	if i < 0 {
		specErr("assigns: cannot parse %q", a)
	}
	base := env.eval(parseSpecExpr(a[:i]))
	pt, ok := types.Unalias(base.Ty).Underlying().(*types.Pointer)
	if !ok {
		specErr("assigns %s: base is not a pointer", a)
	}
	fname := a[i+1:]
	st := u.structOf(pt.Elem())
	if fname == "*" {
		var hs []string
		var ss []Sort
		for k := 0; k < st.NumFields(); k++ {
			hs = append(hs, u.fieldHeapName(pt.Elem(), st.Field(k).Name()))
			ss = append(ss, arrSort(SInt, u.ty.sortOf(st.Field(k).Type())))
		}
		return assignLoc{kind: "field", heap: hs, sorts: ss, ref: base.T}
	}
	for k := 0; k < st.NumFields(); k++ {
		if st.Field(k).Name() == fname {
			return assignLoc{kind: "field", heap: []string{u.fieldHeapName(pt.Elem(), fname)}, sorts: []Sort{arrSort(SInt, u.ty.sortOf(st.Field(k).Type()))}, ref: base.T}
		}
	}
	specErr("assigns: no field %s", a)
	return assignLoc{}
}

// applyFrameHavoc havocs the locations a callee contract may assign.
func (u *Unit) applyFrameHavoc(st *State, env *Env, con *Contract) {
	if con.Pure {
		return
	}
	oldAlloc := u.alloc(st)
	for _, a := range con.Assigns {
		loc := u.parseAssign(env, a)
		for i, hn := range loc.heap {
			hs := loc.sorts[i]
			old := u.heap(st, hn, hs)
			switch loc.kind {
			case "field", "elems", "map":
				// only the designated object changes
				inner := strings.TrimSuffix(strings.TrimPrefix(string(hs), "(Array Int "), ")")
				fv := u.s.fresh("hv_"+hn, Sort(inner))
				u.setHeapTracked(st, hn, hs, sx("store", old, loc.ref, fv), loc.ref, false)
			case "freshfield":
				nh := u.s.fresh(hn, hs)
				u.s.assume(implies(st.reach, fmt.Sprintf("(forall ((r Int)) (! (=> (<= r %s) (= (select %s r) (select %s r))) :pattern ((select %s r))))", oldAlloc, nh, old, nh)))
				u.setHeapTracked(st, hn, hs, nh, "", true)
			default:
				nh := u.s.fresh(hn, hs)
				u.setHeapTracked(st, hn, hs, nh, "", false)
			}
		}
		if loc.kind == "everything" {
			unsupp("assigns everything")
		}
	}
	na := u.s.fresh("alloc", SInt)
	u.s.assume(implies(st.reach, sx(">=", na, oldAlloc)))
	st.heaps["alloc"] = na
	// references stored in the havocked heaps designate objects that exist after the call
	for _, a := range con.Assigns {
		loc := u.parseAssign(env, a)
		if loc.kind != "freshfield" && loc.kind != "allfield" {
			continue
		}
		for i, hn := range loc.heap {
			if h, ok := st.heaps[hn]; ok {
				u.heapWellFormed(hn, h, loc.sorts[i], na, st.reach, false)
			}
		}
	}
}

func (u *Unit) applyContract(st *State, con *Contract, args []TV, instr ssa.Instruction, key string) []Term {
	var sig *types.Signature
	var names []string
	callee := u.eng.funcByKey[con.Key]
	pkg := u.eng.contractPkg(con)
	if callee != nil {
		sig = callee.Signature
		names = u.paramNames(callee, sig, false)
	} else {
		// interface method or external function without SSA body
		switch x := instr.(type) {
		case ssa.CallInstruction:
			sig = x.Common().Signature()
			names = u.paramNames(nil, sig, x.Common().IsInvoke())
		}
	}
	env := u.newEnv(st, st, nil, pkg)
	for i, nm := range names {
		if i < len(args) {
			env.vars[nm] = args[i]
		}
	}
	short := key
	if i := strings.LastIndex(short, "/"); i >= 0 {
		short = short[i+1:]
	}
	for _, c := range con.Requires {
		goal := env.evalBool(c.Expr)
		u.oblige(st, "pre", short+"."+c.Label, "", goal, instr.Pos())
	}
	for _, c := range con.InAssumed {
		u.note("call to %s relies on its unchecked input assumption: %s", con.Key, c.Expr)
	}
	pre := st.clone()
	u.applyFrameHavoc(st, env, con)
	for _, a := range con.Assigns {
		if strings.HasPrefix(a, "ghost ") {
			if name := strings.TrimSpace(a[6:]); u.eng.monotone[name] {
				u.s.assume(implies(st.reach, sx(">=", u.heap(st, "g$"+name, SInt), u.heap(pre, "g$"+name, SInt))))
			}
		}
	}
	res := u.freshResults(st, sig, mangle(short))
	for i, r := range res {
		u.s.assume(implies(st.reach, u.ty.rangeFact(r, sig.Results().At(i).Type(), u.alloc(st))))
	}
	post := u.newEnv(st, pre, nil, pkg)
	for k, v := range env.vars {
		post.vars[k] = v
	}
	rn := u.resultNames(con, sig)
	for i, nm := range rn {
		post.vars[nm] = TV{T: res[i], Ty: sig.Results().At(i).Type()}
	}
	if len(rn) == 1 {
		post.vars["result"] = post.vars[rn[0]]
	}
	for _, c := range con.Ensures {
		// clauses over the callee's local variables (e.g. its option record) say nothing to a caller: skipped
		func() {
			defer func() {
				if r := recover(); r != nil {
					if us, ok := r.(unsupported); ok && strings.Contains(us.msg, "unknown identifier") {
						return
					}
					panic(r)
				}
			}()
			u.s.assume(implies(st.reach, post.evalBool(c.Expr)))
		}()
	}
	for _, c := range con.Assumed {
		u.s.assume(implies(st.reach, post.evalBool(c.Expr)))
		u.note("assumed (unchecked) postcondition of %s: %s", con.Key, c.Expr)
	}
	if con.Trusted {
		u.note("trusted contract: %s", con.Key)
	}
	u.usedContracts[con.Key] = true
	return res
}

// frameObligations: every heap changed at a return site must be covered.
func (u *Unit) frameObligations(r retInfo, con *Contract, pkg *types.Package) {
	env := u.newEnv(u.entry, u.entry, u.top, pkg)
	type cover struct {
		kind string
		ref  Term
	}
	covers := map[string][]cover{}
	for _, a := range con.Assigns {
		loc := u.parseAssign(env, a)
		for _, h := range loc.heap {
			covers[h] = append(covers[h], cover{loc.kind, loc.ref})
		}
	}
	var names []string
	for k := range r.st.heaps {
		names = append(names, k)
	}
	sort.Strings(names)
	alloc0 := u.alloc(u.entry)
	for _, hn := range names {
		if hn == "alloc" || strings.HasPrefix(hn, "visited$") || strings.HasPrefix(hn, "lg$") || strings.HasPrefix(hn, "defer$") {
			continue
		}
		cur := r.st.heaps[hn]
		hs := u.heapSort[hn]
		old := u.heap(u.entry, hn, hs)
		if cur == old {
			continue
		}
		cs := covers[hn]
		var goal Term
		whole := false
		for _, c := range cs {
			if c.kind == "allfield" || c.kind == "ghost" || c.kind == "global" {
				whole = true
			}
		}
		if whole {
			continue
		}
		if !strings.HasPrefix(string(hs), "(Array Int ") {
			goal = eq(cur, old)
		} else {
			// objects that existed at entry and are not designated are unchanged
			conds := []Term{sx("<=", "r", alloc0), sx(">=", "r", "0")}
			for _, c := range cs {
				if c.kind == "field" || c.kind == "elems" || c.kind == "map" {
					conds = append(conds, not(eq("r", c.ref)))
				}
			}
			goal = fmt.Sprintf("(forall ((r Int)) (=> %s (= (select %s r) (select %s r))))", and(conds...), cur, old)
		}
		site := fmt.Sprintf("ret%d", r.blk)
		if r.blk < 0 {
			site = "exit"
		}
		u.oblige(r.st, "frame", mangle(hn), site, goal, r.pos)
	}
}

// ---------------------------------------------------------------------------
// loop modification tracking (pass 1)

func (u *Unit) setHeapTracked(st *State, name string, sort Sort, t Term, ref Term, fresh bool) {
	u.setHeap(st, name, sort, t)
	u.trackWrite(name, sort, ref, fresh)
}

func (u *Unit) trackWrite(name string, srt Sort, ref Term, fresh bool) {
	for _, lk := range u.activeLoops {
		m := u.loopMods[lk]
		if m == nil {
			m = map[string]*modRec{}
			u.loopMods[lk] = m
		}
		rec := m[name]
		if rec == nil {
			rec = &modRec{sort: srt}
			m[name] = rec
		}
		isFresh := fresh
		if !isFresh && ref != "" {
			if b, ok := u.refBirth[ref]; ok && b[lk] {
				isFresh = true
			}
		}
		if !isFresh {
			rec.nonFresh = true
		}
	}
}

func loopKey(fn *ssa.Function, ordinal int) string { return fmt.Sprintf("%s#%d", fn.String(), ordinal) }

var _ = token.NoPos
