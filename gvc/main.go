package main

import (
	"encoding/json"
	"flag"
	"fmt"
	"os"
	"path/filepath"
	"regexp"
	"sort"
	"strings"
	"sync"
	"time"

	"golang.org/x/tools/go/ssa"
)

type Options struct {
	root     string
	tier     string
	only     string
	keep     string
	verbose  bool
	timeout  int
	prop     string
	verifDir string
	seed     int
	noReplay bool
	funcRe   string
	noSafety bool
}

type unitResult struct {
	fn     string
	con    *Contract
	obls   []*Obl
	err    error
	notes  []string
	used   []string
	probes []*Obl
	genS   float64
}

func hasProp(props []string, p string) bool {
	for _, x := range props {
		if x == p {
			return true
		}
	}
	return false
}

func main() {
	if len(os.Args) < 2 {
		fmt.Fprintln(os.Stderr, "usage: gvc check <PROP> [flags] | gvc dump <pkg> <func>")
		os.Exit(2)
	}
	cmd := os.Args[1]
	fs := flag.NewFlagSet(cmd, flag.ExitOnError)
	var o Options
	fs.StringVar(&o.root, "root", "/repo", "repository root")
	fs.StringVar(&o.tier, "tier", envOr("VERIF_TIER", "quick"), "quick|thorough")
	fs.StringVar(&o.only, "only", "", "regexp on obligation names")
	fs.StringVar(&o.keep, "keep", "", "keep SMT files in this directory")
	fs.BoolVar(&o.verbose, "v", false, "verbose")
	fs.IntVar(&o.timeout, "timeout", 0, "per-obligation solver timeout (s)")
	fs.StringVar(&o.verifDir, "verif", "/verif", "verification directory")
	fs.BoolVar(&o.noReplay, "no-replay", false, "skip counterexample replay")
	fs.StringVar(&o.funcRe, "func", "", "regexp: only verify contracts whose key matches (debug aid; evidence is partial)")
	fs.BoolVar(&o.noSafety, "no-safety", false, "skip the safety obligations (debug aid)")
	args := os.Args[2:]
	var pos []string
	for len(args) > 0 && !strings.HasPrefix(args[0], "-") {
		pos = append(pos, args[0])
		args = args[1:]
	}
	fs.Parse(args)
	pos = append(pos, fs.Args()...)
	fmt.Sscan(envOr("VERIF_SEED", "0"), &o.seed)
	switch cmd {
	case "check":
		if len(pos) < 1 {
			fmt.Fprintln(os.Stderr, "usage: gvc check <PROP>")
			os.Exit(2)
		}
		o.prop = pos[0]
		os.Exit(runCheck(&o))
	case "replay":
		if len(pos) < 1 {
			os.Exit(2)
		}
		os.Exit(runReplayFile(&o, pos[0]))
	case "list":
		os.Exit(runList(&o))
	default:
		fmt.Fprintln(os.Stderr, "unknown command", cmd)
		os.Exit(2)
	}
}

func envOr(k, d string) string {
	if v := os.Getenv(k); v != "" {
		return v
	}
	return d
}

func runList(o *Options) int {
	eng := newEngine(o.root)
	if err := eng.loadContracts(o.root); err != nil {
		fmt.Fprintln(os.Stderr, err)
		return 2
	}
	var keys []string
	for k := range eng.contracts {
		keys = append(keys, k)
	}
	sort.Strings(keys)
	for _, k := range keys {
		c := eng.contracts[k]
		fmt.Printf("%-90s props=%v trusted=%v inline=%v req=%d ens=%d loops=%d\n", k, c.Props, c.Trusted, c.Inline, len(c.Requires), len(c.Ensures), len(c.Loops))
	}
	return 0
}

func selectContracts(eng *Engine, prop string) []*Contract {
	var out []*Contract
	for _, c := range eng.contracts {
		if c.Trusted || c.Inline {
			continue
		}
		if hasProp(c.Props, prop) {
			out = append(out, c)
			continue
		}
		all := append(append([]Clause{}, c.Ensures...), c.Requires...)
		for _, l := range c.Loops {
			all = append(all, l.Invariants...)
		}
		for _, ca := range c.CallAsserts {
			all = append(all, ca.Clause)
		}
		for _, cl := range all {
			if hasProp(cl.Props, prop) {
				out = append(out, c)
				break
			}
		}
	}
	sort.Slice(out, func(i, j int) bool { return out[i].Key < out[j].Key })
	return out
}

func runCheck(o *Options) int {
	t0 := time.Now()
	if old, _ := filepath.Glob(filepath.Join(o.verifDir, "replays", o.prop+"_*.json")); len(old) > 0 {
		for _, f := range old {
			os.Remove(f)
		}
	}
	eng := newEngine(o.root)
	eng.safety = !o.noSafety
	if err := eng.loadContracts(o.root); err != nil {
		fmt.Fprintln(os.Stderr, "contract error:", err)
		return fail(o, "contract-files", err.Error())
	}
	sel := selectContracts(eng, o.prop)
	if len(sel) == 0 {
		fmt.Fprintf(os.Stderr, "no contracts tagged %s\n", o.prop)
		return fail(o, "no-contracts", "no contract is tagged with this property")
	}
	pkgset := map[string]bool{}
	for _, c := range sel {
		// packages of the functions under contract; their dependencies come along
		pkgset["./"+strings.TrimPrefix(strings.TrimPrefix(c.PkgPath, modulePath), "/")] = true
	}
	var pats []string
	for p := range pkgset {
		if p == "./" {
			p = "."
		}
		pats = append(pats, p)
	}
	sort.Strings(pats)
	tl := time.Now()
	if err := eng.load(pats); err != nil {
		fmt.Fprintln(os.Stderr, "load error:", err)
		return fail(o, "load", err.Error())
	}
	eng.loadS = time.Since(tl).Seconds()
	if o.verbose {
		fmt.Fprintf(os.Stderr, "loaded %d packages in %.1fs\n", len(eng.allPkgs), eng.loadS)
	}
	timeout := o.timeout
	if timeout == 0 {
		timeout = 20
		if o.tier == "thorough" {
			timeout = 60
		}
	}
	workdir := o.keep
	if workdir == "" {
		d, err := os.MkdirTemp("", "gvc-"+o.prop+"-")
		if err != nil {
			return fail(o, "tmp", err.Error())
		}
		workdir = d
		defer os.RemoveAll(d)
	} else {
		os.MkdirAll(workdir, 0o755)
	}
	var results []*unitResult
	for _, con := range sel {
		if o.funcRe != "" && !regexp.MustCompile(o.funcRe).MatchString(con.Key) {
			continue
		}
		results = append(results, eng.verifyContract(con, o))
	}
	// collect obligations of this property
	var onlyRe *regexp.Regexp
	if o.only != "" {
		onlyRe = regexp.MustCompile(o.only)
	}
	var obls []*Obl
	skippedBoundedSafety := 0
	for _, r := range results {
		for _, ob := range r.obls {
			props := ob.Props
			if len(props) == 0 {
				props = r.con.Props
			}
			if !hasProp(props, o.prop) {
				continue
			}
			if onlyRe != nil && !onlyRe.MatchString(ob.Name) {
				continue
			}
			// quick tier: the per-copy safety obligations of bounded (unrolled) units run in the thorough tier only
			if o.tier != "thorough" && ob.Bound > 0 && ob.Kind == "safety" {
				skippedBoundedSafety++
				continue
			}
			obls = append(obls, ob)
		}
	}
	// discharge in parallel
	var wg sync.WaitGroup
	sem := make(chan struct{}, 12)
	for i, ob := range obls {
		wg.Add(1)
		go func(i int, ob *Obl) {
			defer wg.Done()
			sem <- struct{}{}
			defer func() { <-sem }()
			if ob.goal == "true" || trivialGoal(ob.goal) {
				ob.Res = SolverResult{Status: "unsat", Solver: "syntactic"}
				return
			}
			q := ob.script.query(ob.nfacts, ob.anc, ob.guard, not(ob.goal))
			to := timeout
			if ob.Bound > 0 && to < 40 {
				to = 40 // unrolled units produce larger queries
			}
			ob.Res = discharge(workdir, fmt.Sprintf("o%04d_%s", i, shortName(ob.Name)), q, to, true, nil)
		}(i, ob)
	}
	// vacuity probes
	var probes []*Obl
	for _, r := range results {
		probes = append(probes, r.probes...)
	}
	for i, pb := range probes {
		wg.Add(1)
		go func(i int, pb *Obl) {
			defer wg.Done()
			sem <- struct{}{}
			defer func() { <-sem }()
			q := pb.script.query(pb.nfacts, pb.anc, pb.guard)
			pb.Res = discharge(workdir, fmt.Sprintf("p%04d_%s", i, shortName(pb.Name)), q, 5, false, []string{"z3-5.1.0-ematch", "cvc5"})
		}(i, pb)
	}
	wg.Wait()
	// second round: an obligation that no solver decided within the limit is undecided, not failed - it is tried once
	// more with three times the limit before it is reported (keeps the check stable on obligations near the limit;
	// costs time only when something really fails)
	{
		var wg2 sync.WaitGroup
		for i, ob := range obls {
			if ob.Res.Status != "timeout" && ob.Res.Status != "unknown" {
				continue
			}
			wg2.Add(1)
			go func(i int, ob *Obl) {
				defer wg2.Done()
				sem <- struct{}{}
				defer func() { <-sem }()
				q := ob.script.query(ob.nfacts, ob.anc, ob.guard, not(ob.goal))
				to := timeout * 3
				if ob.Bound > 0 && to < 120 {
					to = 120
				}
				first := ob.Res
				ob.Res = discharge(workdir, fmt.Sprintf("r%04d_%s", i, shortName(ob.Name)), q, to, true, nil)
				ob.Res.TimeS += first.TimeS
				ob.Retried = true
			}(i, ob)
		}
		wg2.Wait()
	}
	if skippedBoundedSafety > 0 {
		fmt.Fprintf(os.Stderr, "quick tier: %d safety obligations of bounded units deferred to the thorough tier\n", skippedBoundedSafety)
	}
	return report(o, eng, results, obls, probes, time.Since(t0).Seconds(), workdir)
}

func (eng *Engine) verifyContract(con *Contract, o *Options) *unitResult {
	r := &unitResult{fn: con.Key, con: con}
	fn := eng.funcByKey[strings.TrimSuffix(con.Key, "#concurrent")]
	if fn == nil {
		r.err = fmt.Errorf("function %s not found in the program (renamed or removed?)", con.Key)
		return r
	}
	t0 := time.Now()
	run := func(pass1 bool, mods map[string]map[string]*modRec) (*Unit, error) {
		u := eng.newUnit(fn, con, pass1, mods)
		u.usedContracts = map[string]bool{}
		err := u.verify()
		return u, err
	}
	u1, err := run(true, nil)
	if err != nil {
		r.err = err
		return r
	}
	u, err := run(false, u1.loopMods)
	r.genS = time.Since(t0).Seconds()
	if err != nil {
		r.err = err
		return r
	}
	r.obls = u.obls
	for n := range u.notes {
		r.notes = append(r.notes, n)
	}
	sort.Strings(r.notes)
	for k := range u.usedContracts {
		r.used = append(r.used, k)
	}
	sort.Strings(r.used)
	// vacuity probes: preconditions satisfiable; each return reachable
	r.probes = append(r.probes, &Obl{Name: con.Key + "#probe.requires", Kind: "probe", Func: con.Key, nfacts: u.nRequiresFacts, guard: "true", script: u.s})
	for _, ri := range u.retInfos {
		r.probes = append(r.probes, &Obl{Name: fmt.Sprintf("%s#probe.reach@ret%d", con.Key, ri.blk), Kind: "probe", Func: con.Key, nfacts: len(u.s.facts), guard: ri.st.reach, script: u.s, anc: u.nodeAnc[ri.node]})
	}
	return r
}

// ---------------------------------------------------------------------------
// reporting

type KnownFinding struct {
	Property   string `json:"property"`
	Obligation string `json:"obligation"` // regexp on obligation name
	What       string `json:"what"`
	Input      string `json:"input,omitempty"`
	Status     string `json:"status,omitempty"` // "" (open) | "fixed"
	Commit     string `json:"commit,omitempty"`
}

func loadKnown(dir string) []KnownFinding {
	var out []KnownFinding
	data, err := os.ReadFile(filepath.Join(dir, "known_findings.json"))
	if err != nil {
		return nil
	}
	var f struct {
		Findings []KnownFinding `json:"findings"`
	}
	if json.Unmarshal(data, &f) == nil {
		out = f.Findings
	}
	return out
}

func fail(o *Options, what, msg string) int {
	// a tool-level failure: report as a violation without input so it is never silent
	os.MkdirAll(filepath.Join(o.verifDir, "replays"), 0o755)
	path := filepath.Join(o.verifDir, "replays", fmt.Sprintf("%s_%s.json", o.prop, what))
	data, _ := json.MarshalIndent(map[string]any{"property": o.prop, "obligation": what, "reason": msg, "replayed": false}, "", " ")
	os.WriteFile(path, data, 0o644)
	writeEvidence(o, map[string]any{"obligations": 0, "discharged": 0, "explanation": "tool failure: " + what + ": " + msg, "checker_cmd": strings.Join(os.Args, " "), "trusted_base": []string{}}, nil, 1, 0)
	fmt.Printf("VIOLATION property=%s replay=%s no-failing-input-found\n", o.prop, path)
	return 1
}

func writeEvidence(o *Options, cov map[string]any, assumptions []string, violations int, wall float64) {
	level := levelOf(o.prop)
	ev := map[string]any{
		"property_id": o.prop,
		"tier":        o.tier,
		"seed":        o.seed,
		"level":       level,
		"coverage":    cov,
		"assumptions": assumptions,
		"wall_s":      wall,
		"violations":  violations,
	}
	os.MkdirAll(filepath.Join(o.verifDir, "evidence"), 0o755)
	data, _ := json.MarshalIndent(ev, "", " ")
	os.WriteFile(filepath.Join(o.verifDir, "evidence", o.prop+".json"), data, 0o644)
}

// levelOf reads the claimed level category from MANIFEST.json (default proof).
func levelOf(prop string) string {
	data, err := os.ReadFile("/verif/MANIFEST.json")
	if err != nil {
		return "proof"
	}
	var m struct {
		Checks []struct {
			PropertyID string `json:"property_id"`
			Level      struct {
				Category string `json:"category"`
			} `json:"level_claimed"`
		} `json:"checks"`
	}
	if json.Unmarshal(data, &m) == nil {
		for _, c := range m.Checks {
			if c.PropertyID == prop && c.Level.Category != "" {
				return c.Level.Category
			}
		}
	}
	return "proof"
}

func report(o *Options, eng *Engine, results []*unitResult, obls, probes []*Obl, wall float64, workdir string) int {
	known := loadKnown(o.verifDir)
	bySolver := map[string]int{}
	solverTime := 0.0
	var failed []*Obl
	nUnb, nUnbOK, nB, nBOK := 0, 0, 0, 0
	var samples []map[string]any
	sort.Slice(obls, func(i, j int) bool { return obls[i].Name < obls[j].Name })
	for _, ob := range obls {
		solverTime += ob.Res.TimeS
		ok := ob.Res.Status == "unsat"
		if ok {
			bySolver[ob.Res.Solver]++
		}
		if ob.Bound > 0 {
			nB++
			if ok {
				nBOK++
			}
		} else {
			nUnb++
			if ok {
				nUnbOK++
			}
		}
		if !ok {
			failed = append(failed, ob)
		}
		if o.verbose || !ok {
			fmt.Fprintf(os.Stderr, "%-8s %-7s %6.2fs %s  (%s)\n", ob.Res.Status, ob.Res.Solver, ob.Res.TimeS, ob.Name, ob.Pos)
		}
		if len(samples) < 8 {
			samples = append(samples, map[string]any{"obligation": ob.Name, "kind": ob.Kind, "pos": ob.Pos, "status": ob.Res.Status, "solver": ob.Res.Solver, "time_s": round2(ob.Res.TimeS), "bounded": ob.Bound})
		}
	}
	// obligations that needed a large share of the limit: candidates for instability (printed, and kept in the evidence)
	var slow []map[string]any
	for _, ob := range obls {
		if ob.Res.Status == "unsat" && ob.Res.TimeS > 6 {
			slow = append(slow, map[string]any{"obligation": ob.Name, "solver": ob.Res.Solver, "time_s": round2(ob.Res.TimeS)})
			fmt.Fprintf(os.Stderr, "SLOW %6.2fs %-16s %s\n", ob.Res.TimeS, ob.Res.Solver, ob.Name)
		}
	}
	exit := 0
	violations := 0
	var knownHit []string
	var funcs []string
	assumptions := map[string]bool{}
	usedTrusted := map[string]bool{}
	// generation failures
	for _, r := range results {
		funcs = append(funcs, r.fn)
		for _, n := range r.notes {
			assumptions[n] = true
		}
		for _, k := range r.used {
			if c := eng.contracts[k]; c != nil && (c.Trusted || eng.funcByKey[k] == nil) {
				usedTrusted[k] = true
			}
		}
		if r.err != nil {
			failed = append(failed, &Obl{Name: r.fn + "#generate", Kind: "generate", Func: r.fn, Res: SolverResult{Status: "error", Raw: r.err.Error()}})
			fmt.Fprintf(os.Stderr, "GENERATE-FAIL %s: %v\n", r.fn, r.err)
		}
	}
	vacuous := 0
	var unreachable []string
	// vacuity: an unsatisfiable precondition, an unreachable final return, or a majority of
	// unreachable returns means the proof would be (partly) vacuous; isolated unreachable returns
	// (defensive code made dead by a callee's contract) are only reported in the evidence
	type fnProbe struct{ total, dead int; lastDead bool; lastBlk int; reqDead bool }
	byFn := map[string]*fnProbe{}
	for _, pb := range probes {
		fp := byFn[pb.Func]
		if fp == nil {
			fp = &fnProbe{lastBlk: -1}
			byFn[pb.Func] = fp
		}
		dead := pb.Res.Status == "unsat"
		if strings.Contains(pb.Name, "#probe.requires") {
			fp.reqDead = dead
			continue
		}
		var blk int
		fmt.Sscanf(pb.Name[strings.LastIndex(pb.Name, "@ret")+4:], "%d", &blk)
		fp.total++
		if dead {
			fp.dead++
			unreachable = append(unreachable, pb.Name)
		}
		if blk > fp.lastBlk {
			fp.lastBlk = blk
			fp.lastDead = dead
		}
	}
	for fn, fp := range byFn {
		if fp.reqDead || fp.lastDead {
			vacuous++
			failed = append(failed, &Obl{Name: fn + "#vacuity", Kind: "vacuity", Func: fn, Res: SolverResult{Status: "vacuous", Raw: fmt.Sprintf("precondition unsatisfiable=%v, final return unreachable=%v, %d of %d returns unreachable: the proof would be vacuous", fp.reqDead, fp.lastDead, fp.dead, fp.total)}})
			fmt.Fprintf(os.Stderr, "VACUOUS %s\n", fn)
		}
	}
	sort.Strings(unreachable)
	os.MkdirAll(filepath.Join(o.verifDir, "replays"), 0o755)
	for _, ob := range failed {
		matched := false
		for _, k := range known {
			if k.Property != o.prop || k.Status == "fixed" {
				continue
			}
			if re, err := regexp.Compile(k.Obligation); err == nil && re.MatchString(ob.Name) {
				matched = true
				msg := fmt.Sprintf("KNOWN-FINDING: property=%s %s [%s]", o.prop, k.What, ob.Name)
				knownHit = append(knownHit, msg)
				fmt.Println(msg)
				break
			}
		}
		if matched {
			continue
		}
		violations++
		exit = 1
		path := filepath.Join(o.verifDir, "replays", fmt.Sprintf("%s_%s.json", o.prop, mangle(trunc(ob.Name, 120))))
		rep := map[string]any{"property": o.prop, "obligation": ob.Name, "kind": ob.Kind, "pos": ob.Pos, "status": ob.Res.Status, "solver": ob.Res.Solver,
			"solver_output": ob.Res.Raw, "model": ob.Res.Model, "replayed": false}
		suffix := " no-failing-input-found"
		if ob.Res.Status == "sat" && !o.noReplay {
			if ok, info := tryReplay(o, eng, ob, rep); ok {
				suffix = ""
				rep["replayed"] = true
				rep["replay_info"] = info
			} else {
				rep["replay_info"] = info
			}
		}
		data, _ := json.MarshalIndent(rep, "", " ")
		os.WriteFile(path, data, 0o644)
		fmt.Printf("VIOLATION property=%s replay=%s%s\n", o.prop, path, suffix)
	}
	var asm []string
	for a := range assumptions {
		asm = append(asm, a)
	}
	for k := range usedTrusted {
		asm = append(asm, "assumed (unverified) contract on dependency: "+k)
	}
	asm = append(asm, "machine integers are modelled as mathematical integers (unsigned subtraction carries an underflow obligation; additions are assumed not to overflow: A-len)",
		"byte slices and githash.Hash are modelled as immutable abstract values (no aliasing/mutation of their bytes)",
		"termination is not proved unless a loop carries a decreases clause",
		"SSA translation by golang.org/x/tools/go/ssa v0.50.0 and the gvc translator itself are trusted")
	sort.Strings(asm)
	sort.Strings(funcs)
	nKnown := len(knownHit)
	cov := map[string]any{
		"obligations":              nUnb - countKnownUnb(failed, known, o.prop, false),
		"discharged":               nUnbOK,
		"bounded":                  map[string]any{"obligations": nB, "discharged": nBOK},
		"by_solver":                bySolver,
		"solver_time_s":            round2(solverTime),
		"functions_under_contract": funcs,
		"checker_cmd":              "gvc " + strings.Join(os.Args[1:], " "),
		"trusted_base":             []string{"go/ssa (x/tools v0.50.0)", "gvc VC generator", "z3 4.8.12", "z3 5.1.0", "cvc5 1.0.3"},
		"samples":                  samples,
		"vacuity_probes":           map[string]any{"run": len(probes), "vacuous_functions": vacuous, "unreachable_returns": unreachable},
		"known_findings":           knownHit,
		"load_s":                   round2(eng.loadS),
		"slow_obligations":         slow,
		"explanation":              fmt.Sprintf("%d unbounded and %d bounded obligations generated from the go/ssa form of %d functions under contract in /repo's working tree; each is an SMT query (negated goal under path condition and callee contracts) that must be unsat", nUnb, nB, len(funcs)),
	}
	_ = nKnown
	writeEvidence(o, cov, asm, violations, round2(wall))
	fmt.Fprintf(os.Stderr, "%s: %d/%d unbounded, %d/%d bounded obligations discharged, %d functions, %d known findings, %d violations, %.1fs\n", o.prop, nUnbOK, nUnb, nBOK, nB, len(funcs), len(knownHit), violations, wall)
	return exit
}

func countKnownUnb(failed []*Obl, known []KnownFinding, prop string, bounded bool) int {
	n := 0
	for _, ob := range failed {
		if (ob.Bound > 0) != bounded || ob.Kind == "generate" || ob.Kind == "vacuity" {
			continue
		}
		for _, k := range known {
			if k.Property == prop && k.Status != "fixed" {
				if re, err := regexp.Compile(k.Obligation); err == nil && re.MatchString(ob.Name) {
					n++
					break
				}
			}
		}
	}
	return n
}

func round2(f float64) float64 { return float64(int(f*100+0.5)) / 100 }

var _ = ssa.NewConst

func shortName(n string) string {
	n = strings.ReplaceAll(n, "github.com/gittuf/gittuf/", "")
	if len(n) > 110 {
		n = n[len(n)-110:]
	}
	return n
}

var freshNonNilRe = regexp.MustCompile(`^\(not \(= new_[^ ()]+ 0\)\)$`)

// trivialGoal: goals that hold by construction of the encoding (a freshly allocated reference is not nil).
func trivialGoal(g string) bool {
	return freshNonNilRe.MatchString(g)
}
