package main

// SMT-LIB text construction and the solver portfolio.

import (
	"bytes"
	"context"
	"fmt"
	"os"
	"os/exec"
	"path/filepath"
	"sort"
	"strings"
	"sync"
	"time"
)

type Term = string

func sx(op string, args ...Term) Term {
	if len(args) == 0 {
		return op
	}
	// trivial arithmetic identities keep index terms syntactically stable for e-matching
	if len(args) == 2 {
		switch op {
		case "+":
			if args[1] == "0" {
				return args[0]
			}
			if args[0] == "0" {
				return args[1]
			}
		case "-":
			if args[1] == "0" {
				return args[0]
			}
		case "ix":
			if args[0] == "0" {
				// element index of a slice with offset 0 is the index itself (kept as ix for patterns only when offset is symbolic)
			}
		}
	}
	return "(" + op + " " + strings.Join(args, " ") + ")"
}

func and(ts ...Term) Term {
	var out []Term
	for _, t := range ts {
		if t == "true" || t == "" {
			continue
		}
		if t == "false" {
			return "false"
		}
		out = append(out, t)
	}
	switch len(out) {
	case 0:
		return "true"
	case 1:
		return out[0]
	}
	return sx("and", out...)
}

func or(ts ...Term) Term {
	var out []Term
	for _, t := range ts {
		if t == "false" || t == "" {
			continue
		}
		if t == "true" {
			return "true"
		}
		out = append(out, t)
	}
	switch len(out) {
	case 0:
		return "false"
	case 1:
		return out[0]
	}
	return sx("or", out...)
}

func not(t Term) Term {
	switch t {
	case "true":
		return "false"
	case "false":
		return "true"
	}
	if strings.HasPrefix(t, "(not ") {
		return t[5 : len(t)-1]
	}
	return sx("not", t)
}

func implies(a, b Term) Term {
	if a == "true" {
		return b
	}
	if a == "false" || b == "true" {
		return "true"
	}
	return sx("=>", a, b)
}

func ite(c, a, b Term) Term {
	if c == "true" {
		return a
	}
	if c == "false" {
		return b
	}
	if a == b {
		return a
	}
	return sx("ite", c, a, b)
}

func eq(a, b Term) Term {
	if a == b {
		return "true"
	}
	return sx("=", a, b)
}

func intLit(n int64) Term {
	if n < 0 {
		return fmt.Sprintf("(- %d)", -n)
	}
	return fmt.Sprintf("%d", n)
}

// mangle turns an arbitrary Go name into an SMT-LIB simple symbol.
func mangle(s string) string {
	var b strings.Builder
	for _, r := range s {
		switch {
		case r >= 'a' && r <= 'z', r >= 'A' && r <= 'Z', r >= '0' && r <= '9', r == '_', r == '.', r == '$':
			b.WriteRune(r)
		case r == '/':
			b.WriteString(".")
		case r == '*':
			b.WriteString("P_")
		case r == '[':
			b.WriteString("L_")
		case r == ']':
			b.WriteString("_R")
		case r == '(' || r == ')' || r == ' ' || r == ',':
			b.WriteString("_")
		default:
			fmt.Fprintf(&b, "_x%x_", r)
		}
	}
	return b.String()
}

// ---------------------------------------------------------------------------

// Script is the shared SMT context of one verification unit.
type Script struct {
	decls    []string // in order
	declared map[string]bool
	facts    []string // (assert ...) bodies in order
	nfresh   int
	specMode int // >0 while evaluating specification expressions: no facts, no definitions
	factTag  []int // per fact: id of the top-level CFG node that produced it (-1 = global)
	curTag   int
	defMemo  map[string]Term
}

func newScript() *Script {
	return &Script{declared: map[string]bool{}, curTag: -1, defMemo: map[string]Term{}}
}

// sortRegistry: every struct sort ever declared (by any unit), in dependency
// order; queries include the ones they mention.
type sortDecl struct{ name, decl string }

var sortRegistry []sortDecl
var sortRegistered = map[string]bool{}

func (s *Script) declareRaw(key, line string) {
	if strings.HasPrefix(key, "sort:") {
		name := strings.TrimPrefix(key, "sort:")
		if !sortRegistered[name] {
			sortRegistered[name] = true
			sortRegistry = append(sortRegistry, sortDecl{name, line})
		}
		s.declared[key] = true
		return
	}
	if s.declared[key] {
		return
	}
	s.declared[key] = true
	s.decls = append(s.decls, line)
}

func (s *Script) declConst(name string, sort Sort) Term {
	s.declareRaw("c:"+name, fmt.Sprintf("(declare-fun %s () %s)", name, sort))
	return name
}

func (s *Script) declFun(name string, args []Sort, res Sort) {
	as := make([]string, len(args))
	for i, a := range args {
		as[i] = string(a)
	}
	s.declareRaw("c:"+name, fmt.Sprintf("(declare-fun %s (%s) %s)", name, strings.Join(as, " "), res))
}

func (s *Script) fresh(prefix string, sort Sort) Term {
	s.nfresh++
	return s.declConst(fmt.Sprintf("%s!%d", mangle(prefix), s.nfresh), sort)
}

func (s *Script) assume(t Term) {
	if t == "true" || s.specMode > 0 {
		return
	}
	s.facts = append(s.facts, t)
	s.factTag = append(s.factTag, s.curTag)
}

// assumeGlobal records a context-free fact (axioms of declared symbols) even in spec mode.
func (s *Script) assumeGlobal(t Term) {
	if t == "true" {
		return
	}
	s.facts = append(s.facts, t)
	s.factTag = append(s.factTag, -1)
}

// define introduces a named constant equal to t (keeps terms small).
func (s *Script) define(prefix string, sort Sort, t Term) Term {
	if len(t) < 40 || s.specMode > 0 {
		return t
	}
	c := s.fresh(prefix, sort)
	s.assume(eq(c, t))
	return c
}

// query renders the script with facts[:nfacts] plus extra assertions.
func (s *Script) query(nfacts int, anc map[int]bool, extra ...Term) string {
	var b strings.Builder
	b.WriteString("(set-option :produce-models true)\n(set-logic ALL)\n")
	// base prelude first (decls[0]), then the struct sorts the text mentions, then the rest
	var rest strings.Builder
	for _, d := range s.decls[1:] {
		rest.WriteString(d)
		rest.WriteByte('\n')
	}
	body := rest.String()
	for i, f := range s.facts[:nfacts] {
		if anc != nil && s.factTag[i] >= 0 && !anc[s.factTag[i]] {
			continue
		}
		body += f
	}
	for _, e := range extra {
		body += e
	}
	need := make([]bool, len(sortRegistry))
	for changed := true; changed; {
		changed = false
		for i, sd := range sortRegistry {
			if need[i] {
				continue
			}
			if strings.Contains(body, sd.name) {
				need[i] = true
				body += sd.decl
				changed = true
			}
		}
	}
	b.WriteString(s.decls[0])
	b.WriteByte('\n')
	for i, sd := range sortRegistry {
		if need[i] {
			b.WriteString(sd.decl)
			b.WriteByte('\n')
		}
	}
	b.WriteString(rest.String())
	for i, f := range s.facts[:nfacts] {
		if anc != nil && s.factTag[i] >= 0 && !anc[s.factTag[i]] {
			continue
		}
		b.WriteString("(assert ")
		b.WriteString(f)
		b.WriteString(")\n")
	}
	for _, e := range extra {
		b.WriteString("(assert ")
		b.WriteString(e)
		b.WriteString(")\n")
	}
	b.WriteString("(check-sat)\n")
	return b.String()
}

// ---------------------------------------------------------------------------
// Solver portfolio

type SolverResult struct {
	Status string // unsat | sat | unknown | timeout | error
	Solver string
	TimeS  float64
	Model  string
	Raw    string
}

type solverSpec struct {
	name string
	argv func(file string, timeoutS int) []string
}

var solvers = []solverSpec{
	{"z3-5.1.0-ematch", func(f string, t int) []string {
		return []string{"z3-new", "smt.mbqi=false", "smt.auto_config=false", fmt.Sprintf("-T:%d", t), f}
	}},
	{"cvc5-1.0.3", func(f string, t int) []string {
		return []string{"cvc5", "--full-saturate-quant", fmt.Sprintf("--tlimit=%d", t*1000), f}
	}},
	{"z3-5.1.0-mbqi", func(f string, t int) []string { return []string{"z3-new", fmt.Sprintf("-T:%d", t), f} }},
	{"z3-4.8.12-ematch", func(f string, t int) []string {
		return []string{"/usr/bin/z3", "smt.mbqi=false", "smt.auto_config=false", fmt.Sprintf("-T:%d", t), f}
	}},
}

var solverSem = make(chan struct{}, 16)

func runOne(sp solverSpec, file string, timeoutS int, ctx context.Context) SolverResult {
	solverSem <- struct{}{}
	defer func() { <-solverSem }()
	if ctx.Err() != nil {
		return SolverResult{Status: "cancelled", Solver: sp.name}
	}
	// The limit is CPU time (ulimit -t), so that a loaded machine does not turn a 0.1 s proof into a timeout;
	// the wall-clock limits (solver option and context) are a generous multiple and only guard against a wedged process.
	wallS := timeoutS*8 + 30
	argv := sp.argv(file, wallS)
	cctx, cancel := context.WithTimeout(ctx, time.Duration(wallS+2)*time.Second)
	defer cancel()
	sh := append([]string{"-c", fmt.Sprintf("ulimit -t %d; exec \"$@\"", timeoutS+1), "sh"}, argv...)
	cmd := exec.CommandContext(cctx, "/bin/sh", sh...)
	var out bytes.Buffer
	cmd.Stdout = &out
	cmd.Stderr = &out
	t0 := time.Now()
	_ = cmd.Run()
	el := time.Since(t0).Seconds()
	raw := out.String()
	first := strings.TrimSpace(strings.SplitN(raw, "\n", 2)[0])
	res := SolverResult{Solver: sp.name, TimeS: el, Raw: raw}
	switch {
	case strings.Contains(raw, "(error") && first != "unsat" && first != "sat":
		res.Status = "error"
	case first == "unsat":
		// an (error line *before* the verdict means an assertion was dropped
		if strings.Contains(raw, "(error") && !strings.Contains(raw, "model is not available") && !strings.Contains(raw, "Cannot get model") {
			res.Status = "error"
		} else {
			res.Status = "unsat"
		}
	case first == "sat":
		if strings.Contains(raw, "(error") {
			res.Status = "error"
		} else {
			res.Status = "sat"
			if i := strings.Index(raw, "\n"); i >= 0 {
				res.Model = raw[i+1:]
			}
		}
	case first == "unknown":
		res.Status = "unknown"
	case first == "timeout" || cctx.Err() != nil:
		res.Status = "timeout"
	case cmd.ProcessState != nil && !cmd.ProcessState.Exited():
		// killed by a signal: the CPU limit (SIGXCPU/SIGKILL)
		res.Status = "timeout"
	default:
		if strings.Contains(raw, "timeout") || strings.Contains(raw, "interrupted") {
			res.Status = "timeout"
		} else {
			res.Status = "error"
		}
	}
	return res
}

// discharge races the solvers on the query; withModel adds (get-model).
func discharge(workdir, name, query string, timeoutS int, wantModel bool, which []string) SolverResult {
	file := filepath.Join(workdir, mangle(name)+".smt2")
	q := query
	if wantModel {
		q += "(get-model)\n"
	}
	if err := os.WriteFile(file, []byte(q), 0o644); err != nil {
		return SolverResult{Status: "error", Raw: err.Error()}
	}
	ctx, cancel := context.WithCancel(context.Background())
	defer cancel()
	ch := make(chan SolverResult, len(solvers))
	n := 0
	for _, sp := range solvers {
		if len(which) > 0 {
			ok := false
			for _, w := range which {
				if strings.HasPrefix(sp.name, w) {
					ok = true
				}
			}
			if !ok {
				continue
			}
		}
		n++
		delay := time.Duration(0)
		if n > 1 {
			delay = time.Duration(700*(n-1)) * time.Millisecond
		}
		go func(sp solverSpec, delay time.Duration) {
			select {
			case <-time.After(delay):
			case <-ctx.Done():
				ch <- SolverResult{Status: "cancelled", Solver: sp.name}
				return
			}
			ch <- runOne(sp, file, timeoutS, ctx)
		}(sp, delay)
	}
	var all []SolverResult
	best := SolverResult{Status: "timeout"}
	for i := 0; i < n; i++ {
		r := <-ch
		all = append(all, r)
		if r.Status == "unsat" || r.Status == "sat" {
			cancel()
			r.Raw = ""
			return r
		}
		if r.Status == "unknown" && best.Status == "timeout" {
			best = r
		}
		if r.Status == "error" && (best.Status == "timeout") {
			best = r
		}
	}
	sort.Slice(all, func(i, j int) bool { return all[i].Solver < all[j].Solver })
	var sb strings.Builder
	for _, r := range all {
		fmt.Fprintf(&sb, "[%s %s %.2fs] %s\n", r.Solver, r.Status, r.TimeS, firstLines(r.Raw, 3))
	}
	best.Raw = sb.String()
	// prefer reporting unknown/timeout over error if some solver did not error
	for _, r := range all {
		if r.Status == "unknown" || r.Status == "timeout" {
			best.Status = r.Status
			best.Solver = r.Solver
			break
		}
	}
	return best
}

func firstLines(s string, n int) string {
	ls := strings.Split(strings.TrimSpace(s), "\n")
	if len(ls) > n {
		ls = ls[:n]
	}
	return strings.Join(ls, " | ")
}

var _ = sync.Mutex{}
