package main

// Contract files (//@ comments) and the specification expression evaluator.

import (
	"fmt"
	"sort"
	"go/ast"
	"go/parser"
	"go/token"
	"go/types"
	"os"
	"path/filepath"
	"regexp"
	"strconv"
	"strings"

	"golang.org/x/tools/go/ssa"
)

type Clause struct {
	Assumed bool // loop clause assumed at the header, not checked (input well-formedness; listed)
	Label string
	Expr  string
	Props []string
	File  string
	Line  int
}

type LoopGhost struct {
	Name, Init, Step string
	Type string // "" = int; otherwise a type string (e.g. smt:(Array Int Int))
}

func (g LoopGhost) goType(eng *Engine, pkg *types.Package) types.Type {
	if g.Type == "" {
		return tInt
	}
	return eng.resolveTypeString(g.Type, pkg)
}

type LoopSpec struct {
	Invariants []Clause
	Decreases  string
	Bound      int
	Cut        bool
	Ghosts     []LoopGhost
	autoRange  bool
}

type GhostUpd struct {
	Callee  string
	Ordinal int
	Var     string
	Expr    string
}

type Contract struct {
	Key      string
	PkgPath  string
	Results  []string
	Requires []Clause
	Ensures  []Clause
	BoundReq []Clause
	CallAssumes []CallAssume
	CallAsserts []CallAssume // obligations at calls to a callee (arguments a0, a1, ...)
	Uses       []string // opt-in prelude lemmas (ixshift)
	Concurrent bool     // second contract of the same function, verified with interference between its calls
	Interferes []string // ghosts other writers may change between two calls of this function
	Rely       []Clause // what other writers may do (old() = before their step)
	InAssumed []Clause // input well-formedness assumed for the body, not checked at call sites (listed)
	Assumed  []Clause
	Assigns  []string
	HasFrame bool
	Trusted  bool
	Inline   bool
	Pure     bool
	Bound    int
	Loops    map[int]*LoopSpec
	Props    []string
	Asserts  []Clause
	File     string
	Line     int
}

// CallAssume: a fact about external input assumed just before calls to a callee (not checked; listed).
type CallAssume struct {
	After  bool // assumed after the call returns (facts about what an external decoder produced)
	Callee string
	Clause Clause
}

type SpecFunc struct {
	Name    string
	PkgPath string
	Params  []string
	PTypes  []string
	RType   string
	Body    string // "" => uninterpreted
	File    string
}

type Axiom struct {
	Name    string
	Expr    string
	PkgPath string
	Lemma   bool
}

type GhostVar struct {
	Name, Type, PkgPath string
}

var labelRe = regexp.MustCompile(`^(\[[A-Z0-9, ]+\]\s*)?([A-Za-z_][A-Za-z0-9_.]*):\s+(.*)$`)
var propsRe = regexp.MustCompile(`^\[([A-Z0-9, ]+)\]\s*(.*)$`)

func parseClause(s, file string, line int) Clause {
	c := Clause{File: file, Line: line}
	s = strings.TrimSpace(s)
	if m := propsRe.FindStringSubmatch(s); m != nil {
		for _, p := range strings.Split(m[1], ",") {
			c.Props = append(c.Props, strings.TrimSpace(p))
		}
		s = m[2]
	}
	if i := strings.Index(s, ": "); i > 0 && regexp.MustCompile(`^[A-Za-z_][A-Za-z0-9_.]*$`).MatchString(s[:i]) {
		c.Label = s[:i]
		s = strings.TrimSpace(s[i+2:])
	}
	c.Expr = s
	return c
}

// loadContracts reads every zz_contracts_verif.go under root.
func (eng *Engine) loadContracts(root string) error {
	return filepath.Walk(root, func(path string, info os.FileInfo, err error) error {
		if err != nil {
			return nil
		}
		if info.IsDir() && (info.Name() == ".git" || info.Name() == "node_modules") {
			return filepath.SkipDir
		}
		if !strings.HasSuffix(path, "_verif.go") || !strings.HasPrefix(filepath.Base(path), "zz_contracts") {
			return nil
		}
		return eng.loadContractFile(root, path)
	})
}

func (eng *Engine) loadContractFile(root, path string) error {
	data, err := os.ReadFile(path)
	if err != nil {
		return err
	}
	rel, _ := filepath.Rel(root, filepath.Dir(path))
	pkgPath := modulePath
	if rel != "." {
		pkgPath = modulePath + "/" + filepath.ToSlash(rel)
	}
	var lines []struct {
		s string
		n int
	}
	for i, l := range strings.Split(string(data), "\n") {
		t := strings.TrimSpace(l)
		if !strings.HasPrefix(t, "//@") {
			continue
		}
		body := strings.TrimPrefix(t, "//@")
		if strings.HasPrefix(strings.TrimSpace(body), "..") && len(lines) > 0 {
			lines[len(lines)-1].s += " " + strings.TrimSpace(strings.TrimPrefix(strings.TrimSpace(body), ".."))
			continue
		}
		if strings.HasPrefix(strings.TrimSpace(body), "#") {
			continue
		}
		lines = append(lines, struct {
			s string
			n int
		}{body, i + 1})
	}
	var cur *Contract
	var curLoop *LoopSpec
	for _, ln := range lines {
		s := strings.TrimSpace(ln.s)
		if s == "" {
			continue
		}
		kw, rest, _ := strings.Cut(s, " ")
		rest = strings.TrimSpace(rest)
		switch kw {
		case "func":
			key := rest
			var results []string
			if i := strings.Index(rest, "->"); i >= 0 {
				key = strings.TrimSpace(rest[:i])
				r := strings.Trim(strings.TrimSpace(rest[i+2:]), "()")
				for _, x := range strings.Split(r, ",") {
					if x = strings.TrimSpace(x); x != "" {
						results = append(results, x)
					}
				}
			}
			var props []string
			if m := propsRe.FindStringSubmatch(key); m != nil {
				for _, p := range strings.Split(m[1], ",") {
					props = append(props, strings.TrimSpace(p))
				}
				key = strings.TrimSpace(m[2])
			}
			concurrent := false
			if strings.HasPrefix(key, "concurrent ") {
				concurrent = true
				key = strings.TrimSpace(strings.TrimPrefix(key, "concurrent "))
			}
			fullKey := key
			if !strings.Contains(key, "/") && !strings.HasPrefix(key, "ext:") {
				// package-local name
				fullKey = qualifyKey(strings.TrimPrefix(pkgPath, modulePath+"/"), key)
			}
			fullKey = strings.TrimPrefix(fullKey, "ext:")
			if concurrent {
				fullKey += "#concurrent"
			}
			cur = &Contract{Concurrent: concurrent, Key: fullKey, PkgPath: pkgPath, Results: results, Loops: map[int]*LoopSpec{}, Props: props, File: path, Line: ln.n}
			if old := eng.contracts[fullKey]; old != nil {
				return fmt.Errorf("%s:%d: duplicate contract for %s", path, ln.n, fullKey)
			}
			eng.contracts[fullKey] = cur
			curLoop = nil
		case "requires":
			if cur == nil {
				return fmt.Errorf("%s:%d: clause outside func", path, ln.n)
			}
			cur.Requires = append(cur.Requires, parseClause(rest, path, ln.n))
		case "boundrequires":
			// the stated bound of a bounded (unrolled) proof: assumed for the body, no obligation for callers
			cur.BoundReq = append(cur.BoundReq, parseClause(rest, path, ln.n))
		case "assumecall", "assumeafter":
			// assumecall <callee substring> :: [label:] expr
			i := strings.Index(rest, "::")
			if i < 0 {
				return fmt.Errorf("%s:%d: assumecall <callee> :: expr", path, ln.n)
			}
			cur.CallAssumes = append(cur.CallAssumes, CallAssume{After: kw == "assumeafter", Callee: strings.TrimSpace(rest[:i]), Clause: parseClause(rest[i+2:], path, ln.n)})
		case "assertcall":
			// assertcall <callee substring> :: [label:] expr   (obligation at every such call, also in inlined callees)
			i := strings.Index(rest, "::")
			if i < 0 {
				return fmt.Errorf("%s:%d: assertcall <callee> :: expr", path, ln.n)
			}
			cur.CallAsserts = append(cur.CallAsserts, CallAssume{Callee: strings.TrimSpace(rest[:i]), Clause: parseClause(rest[i+2:], path, ln.n)})
		case "inputassumed":
			// well-formedness of external input (e.g. metadata decoded from disk): assumed for the body, NOT an
			// obligation at call sites; every use is listed as an assumption
			cur.InAssumed = append(cur.InAssumed, parseClause(rest, path, ln.n))
		case "ensures":
			cur.Ensures = append(cur.Ensures, parseClause(rest, path, ln.n))
		case "assumed":
			// a postcondition callers may rely on but that is NOT checked against the body (listed as an assumption)
			cur.Assumed = append(cur.Assumed, parseClause(rest, path, ln.n))
		case "assert":
			cur.Asserts = append(cur.Asserts, parseClause(rest, path, ln.n))
		case "assigns":
			cur.HasFrame = true
			for _, a := range splitTop(rest, ',') {
				if a = strings.TrimSpace(a); a != "" && a != "nothing" {
					cur.Assigns = append(cur.Assigns, a)
				}
			}
		case "interferes":
			for _, a := range splitTop(rest, ',') {
				if a = strings.TrimSpace(a); a != "" {
					cur.Interferes = append(cur.Interferes, strings.TrimSpace(strings.TrimPrefix(a, "ghost ")))
				}
			}
		case "rely":
			cur.Rely = append(cur.Rely, parseClause(rest, path, ln.n))
		case "uses":
			cur.Uses = append(cur.Uses, strings.Fields(rest)...)
		case "trusted":
			cur.Trusted = true
		case "inline":
			cur.Inline = true
		case "pure":
			cur.Pure = true
			cur.HasFrame = true
		case "bounded":
			n, _ := strconv.Atoi(rest)
			if curLoop != nil {
				curLoop.Bound = n
			} else {
				cur.Bound = n
			}
		case "loop":
			n, _ := strconv.Atoi(strings.TrimSuffix(strings.Fields(rest)[0], ":"))
			curLoop = &LoopSpec{}
			cur.Loops[n] = curLoop
		case "invariant":
			curLoop.Invariants = append(curLoop.Invariants, parseClause(rest, path, ln.n))
		case "assumeinv":
			// a fact about external input assumed at the loop header on every iteration; NOT checked; listed
			c := parseClause(rest, path, ln.n)
			c.Assumed = true
			curLoop.Invariants = append(curLoop.Invariants, c)
		case "cut":
			curLoop.Cut = true
		case "decreases":
			if curLoop != nil {
				curLoop.Decreases = rest
			}
		case "monotone":
			// a ghost counter that no function may decrease: assumed after every call that may assign it, proved at
			// every return of every function under contract that may assign it
			eng.monotone[strings.TrimSpace(rest)] = true
			cur, curLoop = nil, nil
		case "spec", "define":
			sf, err := parseSpecFunc(rest, kw == "define")
			if err != nil {
				return fmt.Errorf("%s:%d: %v", path, ln.n, err)
			}
			sf.PkgPath = pkgPath
			sf.File = path
			eng.specFuncs[sf.Name] = sf
			cur, curLoop = nil, nil
		case "axiom", "lemma":
			c := parseClause(rest, path, ln.n)
			eng.axioms = append(eng.axioms, &Axiom{Name: c.Label, Expr: c.Expr, PkgPath: pkgPath, Lemma: kw == "lemma"})
			cur, curLoop = nil, nil
		case "ghost":
			if curLoop != nil && strings.Contains(rest, " step ") {
				// loop ghost: name = init step expr
				re := regexp.MustCompile(`^(\w+)\s*(smt:\([^=]*\)|[A-Za-z_*\[][\w.\[\]*]*)?\s*=\s*(.*?)\s+step\s+(.*)$`)
				m := re.FindStringSubmatch(rest)
				if m == nil {
					return fmt.Errorf("%s:%d: loop ghost syntax: ghost k [type] = init step expr", path, ln.n)
				}
				curLoop.Ghosts = append(curLoop.Ghosts, LoopGhost{Name: m[1], Type: strings.TrimSpace(m[2]), Init: m[3], Step: m[4]})
				continue
			}
			// ghost name Type
			f := strings.SplitN(rest, " ", 2)
			if len(f) != 2 {
				return fmt.Errorf("%s:%d: ghost needs name and type", path, ln.n)
			}
			eng.ghosts[f[0]] = &GhostVar{Name: f[0], Type: strings.TrimSpace(f[1]), PkgPath: pkgPath}
			cur, curLoop = nil, nil
		default:
			return fmt.Errorf("%s:%d: unknown contract keyword %q", path, ln.n, kw)
		}
	}
	eng.contractFiles = append(eng.contractFiles, path)
	return nil
}

func qualifyKey(pkgRel, key string) string {
	// "(*T).M" -> "(*pkg.T).M" ; "(T).M" ; "F" -> "pkg.F"
	if strings.HasPrefix(key, "(*") {
		return "(*" + pkgRel + "." + key[2:]
	}
	if strings.HasPrefix(key, "(") {
		return "(" + pkgRel + "." + key[1:]
	}
	return pkgRel + "." + key
}

func splitTop(s string, sep byte) []string {
	var out []string
	depth := 0
	last := 0
	for i := 0; i < len(s); i++ {
		switch s[i] {
		case '(', '[', '{':
			depth++
		case ')', ']', '}':
			depth--
		default:
			if s[i] == sep && depth == 0 {
				out = append(out, s[last:i])
				last = i + 1
			}
		}
	}
	return append(out, s[last:])
}

func parseSpecFunc(s string, define bool) (*SpecFunc, error) {
	// name(p1 T1, p2 T2) R [= body]
	i := strings.Index(s, "(")
	if i < 0 {
		return nil, fmt.Errorf("bad spec function %q", s)
	}
	sf := &SpecFunc{Name: strings.TrimSpace(s[:i])}
	depth := 0
	j := i
	for ; j < len(s); j++ {
		if s[j] == '(' {
			depth++
		} else if s[j] == ')' {
			depth--
			if depth == 0 {
				break
			}
		}
	}
	params := s[i+1 : j]
	rest := strings.TrimSpace(s[j+1:])
	for _, p := range splitTop(params, ',') {
		p = strings.TrimSpace(p)
		if p == "" {
			continue
		}
		f := strings.SplitN(p, " ", 2)
		if len(f) != 2 {
			return nil, fmt.Errorf("bad parameter %q", p)
		}
		sf.Params = append(sf.Params, f[0])
		sf.PTypes = append(sf.PTypes, strings.TrimSpace(f[1]))
	}
	if define {
		k := strings.Index(rest, "=")
		if k < 0 {
			return nil, fmt.Errorf("define without body")
		}
		sf.RType = strings.TrimSpace(rest[:k])
		sf.Body = strings.TrimSpace(rest[k+1:])
	} else {
		sf.RType = rest
	}
	return sf, nil
}

// ---------------------------------------------------------------------------
// evaluator

type TV struct {
	T  Term
	Ty types.Type
	LV *LV
}

type Env struct {
	u     *Unit
	vars  map[string]TV
	st    *State // state heap reads go to
	old   *State
	pkg   *types.Package
	fn    *ssa.Function
	loop  *loopInfo
	depth int
	bound []string // SMT names of quantified variables in scope
	noUndef bool
	hdr   *State // state at the header of the current loop (start of the iteration), for atStart()
}

var untypedNil = types.Typ[types.UntypedNil]
var tInt = types.Typ[types.Int]
var tBool = types.Typ[types.Bool]
var tString = types.Typ[types.String]

func specErr(format string, a ...any) { panic(unsupported{"spec: " + fmt.Sprintf(format, a...)}) }

// rewriteArrows turns top-level "a ==> b" and "a <==> b" into calls.
func rewriteArrows(s string) string {
	s = strings.TrimSpace(s)
	// quantifier prefix sugar: forall x, y :: body
	for _, q := range []string{"forall", "exists"} {
		if strings.HasPrefix(s, q+" ") {
			if i := strings.Index(s, "::"); i > 0 {
				vars := strings.TrimSpace(s[len(q):i])
				body := rewriteArrows(s[i+2:])
				out := body
				vs := strings.Split(vars, ",")
				for k := len(vs) - 1; k >= 0; k-- {
					v := strings.TrimSpace(vs[k])
					if f := strings.Fields(v); len(f) == 2 {
						out = fmt.Sprintf("%s(%s, %s, %s)", q, f[0], f[1], out)
					} else {
						out = fmt.Sprintf("%s(%s, %s)", q, v, out)
					}
				}
				return out
			}
		}
	}
	// a quantifier that is not at the start extends to the end of the expression
	for _, q := range []string{"forall ", "exists "} {
		if p := findTop(s, q); p > 0 && !isIdentChar(s[p-1]) && strings.Contains(s[p:], "::") {
			qs := rewriteArrows(s[p:])
			ph := "Q__PLACEHOLDER__Q"
			out := rewriteArrows(s[:p] + ph)
			return strings.Replace(out, ph, qs, 1)
		}
	}
	if i := findTop(s, "<==>"); i >= 0 {
		return fmt.Sprintf("iff(%s, %s)", rewriteArrows(s[:i]), rewriteArrows(s[i+4:]))
	}
	if i := findTop(s, "==>"); i >= 0 {
		return fmt.Sprintf("implies(%s, %s)", rewriteArrows(s[:i]), rewriteArrows(s[i+3:]))
	}
	// recurse into parenthesised groups that contain arrows
	if strings.Contains(s, "==>") || strings.Contains(s, "::") {
		var b strings.Builder
		i := 0
		for i < len(s) {
			if s[i] == '(' {
				d := 0
				j := i
				for ; j < len(s); j++ {
					if s[j] == '(' {
						d++
					} else if s[j] == ')' {
						d--
						if d == 0 {
							break
						}
					}
				}
				inner := s[i+1 : j]
				// split call arguments at top-level commas
				parts := splitTop(inner, ',')
				if t := strings.TrimSpace(inner); strings.HasPrefix(t, "forall ") || strings.HasPrefix(t, "exists ") {
					parts = []string{inner} // a parenthesised quantifier: its variable list may contain commas
				}
				for k, p := range parts {
					parts[k] = rewriteArrows(p)
				}
				b.WriteString("(" + strings.Join(parts, ", ") + ")")
				i = j + 1
				continue
			}
			b.WriteByte(s[i])
			i++
		}
		return b.String()
	}
	return s
}

func isIdentChar(c byte) bool {
	return c == '_' || c >= 'a' && c <= 'z' || c >= 'A' && c <= 'Z' || c >= '0' && c <= '9'
}

func findTop(s, tok string) int {
	depth := 0
	inStr := false
	for i := 0; i+len(tok) <= len(s); i++ {
		ch := s[i]
		if ch == '"' {
			inStr = !inStr
		}
		if inStr {
			continue
		}
		switch ch {
		case '(', '[', '{':
			depth++
		case ')', ']', '}':
			depth--
		}
		if depth == 0 && strings.HasPrefix(s[i:], tok) {
			if tok == "==>" && i > 0 && s[i-1] == '<' {
				continue
			}
			return i
		}
	}
	return -1
}

var exprCache = map[string]ast.Expr{}

func parseSpecExpr(s string) ast.Expr {
	if e, ok := exprCache[s]; ok {
		return e
	}
	r := rewriteArrows(s)
	e, err := parser.ParseExpr(r)
	if err != nil {
		specErr("cannot parse %q (rewritten %q): %v", s, r, err)
	}
	exprCache[s] = e
	return e
}

func (u *Unit) newEnv(st, old *State, fn *ssa.Function, pkg *types.Package) *Env {
	return &Env{u: u, vars: map[string]TV{}, st: st, old: old, fn: fn, pkg: pkg}
}

func (e *Env) evalBool(s string) Term {
	tv := e.eval(parseSpecExpr(s))
	if e.u.ty.sortOf(tv.Ty) != SBool {
		specErr("expression %q is not boolean", s)
	}
	return tv.T
}

func (e *Env) sub(vars map[string]TV) *Env {
	n := *e
	n.vars = map[string]TV{}
	for k, v := range e.vars {
		n.vars[k] = v
	}
	for k, v := range vars {
		n.vars[k] = v
	}
	return &n
}

func (e *Env) resolveType(x ast.Expr) types.Type {
	s := types.ExprString(x)
	return e.u.eng.resolveTypeString(s, e.pkg)
}

func (eng *Engine) resolveTypeString(s string, pkg *types.Package) types.Type {
	s = strings.TrimSpace(s)
	if strings.HasPrefix(s, "smt:") {
		return pseudoType(strings.TrimPrefix(s, "smt:"))
	}
	switch s {
	case "int":
		return tInt
	case "bool":
		return tBool
	case "string":
		return tString
	case "uint64":
		return types.Typ[types.Uint64]
	case "Hash", "Bytes":
		return types.NewSlice(types.Typ[types.Byte])
	case "error":
		return types.Universe.Lookup("error").Type()
	}
	key := pkg.Path() + "|" + s
	if t, ok := eng.typeCache[key]; ok {
		return t
	}
	// composite types over package-qualified names: resolve the parts (types.Eval has no file scope for imports)
	if strings.Contains(s, ".") {
		switch {
		case strings.HasPrefix(s, "map["):
			d := 0
			for i := 3; i < len(s); i++ {
				if s[i] == '[' {
					d++
				} else if s[i] == ']' {
					d--
					if d == 0 {
						t := types.NewMap(eng.resolveTypeString(s[4:i], pkg), eng.resolveTypeString(s[i+1:], pkg))
						eng.typeCache[key] = t
						return t
					}
				}
			}
		case strings.HasPrefix(s, "[]") && strings.Contains(s, "map["):
			t := types.NewSlice(eng.resolveTypeString(s[2:], pkg))
			eng.typeCache[key] = t
			return t
		}
	}
	tv, err := types.Eval(eng.fset, pkg, token.NoPos, s)
	if err != nil {
		// try packages by name qualifier
		if i := strings.LastIndex(s, "."); i > 0 {
			prefix := ""
			q := s[:i]
			for strings.HasPrefix(q, "*") || strings.HasPrefix(q, "[]") {
				if strings.HasPrefix(q, "*") {
					prefix += "*"
					q = q[1:]
				} else {
					prefix += "[]"
					q = q[2:]
				}
			}
			wrap := func(t types.Type) types.Type {
				for k := len(prefix); k > 0; {
					if strings.HasSuffix(prefix[:k], "[]") {
						t = types.NewSlice(t)
						k -= 2
					} else {
						t = types.NewPointer(t)
						k--
					}
				}
				return t
			}
			if ip, ok := eng.importAliases(pkg)[q]; ok {
				name := s[i+1:]
				targs := ""
				if b := strings.Index(name, "["); b > 0 {
					targs = name[b:]
					name = name[:b]
				}
				if obj := ip.Scope().Lookup(name); obj != nil {
					var t types.Type = obj.Type()
					if targs != "" {
						// generic instantiation with basic type arguments, e.g. Set[string]
						var args []types.Type
						for _, a := range strings.Split(strings.Trim(targs, "[]"), ",") {
							args = append(args, eng.resolveTypeString(strings.TrimSpace(a), pkg))
						}
						it, ierr := types.Instantiate(nil, t, args, false)
						if ierr != nil {
							specErr("cannot instantiate %s: %v", s, ierr)
						}
						t = it
					}
					t = wrap(t)
					eng.typeCache[key] = t
					return t
				}
			}
			for _, p := range eng.allPkgs {
				if p.Types.Name() == q {
					if obj := p.Types.Scope().Lookup(s[i+1:]); obj != nil {
						var t types.Type = obj.Type()
						for k := len(prefix); k > 0; {
							if strings.HasSuffix(prefix[:k], "[]") {
								t = types.NewSlice(t)
								k -= 2
							} else {
								t = types.NewPointer(t)
								k--
							}
						}
						eng.typeCache[key] = t
						return t
					}
				}
			}
		}
		specErr("cannot resolve type %q in %s: %v", s, pkg.Path(), err)
	}
	eng.typeCache[key] = tv.Type
	return tv.Type
}

func (e *Env) eval(x ast.Expr) TV {
	u := e.u
	switch x := x.(type) {
	case *ast.ParenExpr:
		return e.eval(x.X)
	case *ast.BasicLit:
		switch x.Kind {
		case token.INT:
			return TV{T: x.Value, Ty: tInt}
		case token.STRING:
			s, _ := strconv.Unquote(x.Value)
			return TV{T: u.ty.strConst(s), Ty: tString}
		}
		specErr("literal %s", x.Value)
	case *ast.Ident:
		return e.ident(x.Name)
	case *ast.UnaryExpr:
		v := e.eval(x.X)
		switch x.Op {
		case token.NOT:
			return TV{T: not(v.T), Ty: tBool}
		case token.SUB:
			return TV{T: sx("-", v.T), Ty: v.Ty}
		case token.AND:
			// &x.f : not needed
		}
		specErr("unary %s", x.Op)
	case *ast.BinaryExpr:
		return e.binary(x)
	case *ast.StarExpr:
		v := e.eval(x.X)
		return e.deref(v)
	case *ast.SelectorExpr:
		return e.selector(x)
	case *ast.IndexExpr:
		return e.index(x)
	case *ast.SliceExpr:
		v := e.eval(x.X)
		if u.ty.sortOf(v.Ty) != SSlc {
			specErr("slice expr on %s", v.Ty)
		}
		lo, hi := "0", sx("slc_len", v.T)
		if x.Low != nil {
			lo = e.eval(x.Low).T
		}
		if x.High != nil {
			hi = e.eval(x.High).T
		}
		return TV{T: sx("mk_slc", sx("slc_arr", v.T), sx("+", sx("slc_off", v.T), lo), sx("-", hi, lo), sx("-", sx("slc_cap", v.T), lo)), Ty: v.Ty}
	case *ast.CallExpr:
		return e.callExpr(x)
	}
	specErr("expression form %T (%s)", x, types.ExprString(x))
	return TV{}
}

func (e *Env) valueOf(tv TV) TV {
	// an lvalue-typed TV (address-taken local / interior pointer) used as value
	return tv
}

func (e *Env) ident(name string) TV {
	u := e.u
	switch name {
	case "true", "false":
		return TV{T: name, Ty: tBool}
	case "nil":
		return TV{Ty: untypedNil}
	}
	if v, ok := e.vars[name]; ok {
		return v
	}
	// local variable of the function (loop invariants, asserts)
	if e.fn != nil {
		e.noUndef = true
		tv, ok := e.localVar(name)
		e.noUndef = false
		if ok {
			return tv
		}
	}
	// ghost variable
	if g, ok := u.eng.ghosts[name]; ok {
		t := u.eng.resolveTypeString(g.Type, u.eng.pkgByPath(g.PkgPath))
		srt := u.ty.sortOf(t)
		return TV{T: u.heap(e.st, "g$"+name, srt), Ty: t}
	}
	// package-level object
	if e.pkg != nil {
		if obj := e.pkg.Scope().Lookup(name); obj != nil {
			return e.pkgObject(obj)
		}
	}
	if e.fn != nil {
		if tv, ok := e.localVar(name); ok {
			return tv
		}
	}
	specErr("unknown identifier %q", name)
	return TV{}
}

func (e *Env) pkgObject(obj types.Object) TV {
	u := e.u
	switch o := obj.(type) {
	case *types.Const:
		c := ssa.NewConst(o.Val(), o.Type())
		return TV{T: u.constTerm(c), Ty: o.Type()}
	case *types.Var:
		g := u.eng.globalFor(o)
		if g == nil {
			specErr("no SSA global for %s", o.Name())
		}
		if c, ok := u.eng.constGlobal(u, g); ok {
			return TV{T: c, Ty: o.Type()}
		}
		lv := u.lvOf(e.st, g)
		return TV{T: u.load(e.st, lv), Ty: o.Type()}
	case *types.Func:
		f := u.eng.prog.FuncValue(o)
		return TV{T: intLit(u.eng.funcID(f)), Ty: o.Type()}
	}
	specErr("package object %s", obj.Name())
	return TV{}
}

func (e *Env) localVar(name string) (TV, bool) {
	u := e.u
	// ghost counters of the current loop
	if e.loop != nil && e.loop.spec != nil {
		for _, g := range e.loop.spec.Ghosts {
			if g.Name == name {
				gt := g.goType(u.eng, fnPkg(e.fn))
				return TV{T: u.heap(e.st, loopGhostHeap(e.fn, e.loop, name), u.ty.sortOf(gt)), Ty: gt}, true
			}
		}
	}
	// loop-carried variable of the current loop
	if e.loop != nil {
		for _, ins := range e.loop.header.Instrs {
			p, ok := ins.(*ssa.Phi)
			if !ok {
				break
			}
			if p.Comment == name {
				if t, ok := e.st.regs[p]; ok {
					return TV{T: t, Ty: p.Type()}, true
				}
			}
		}
	}
	// loop ghosts are visible after their loop under their own name
	if con := u.eng.contractFor(e.fn); con != nil || (e.fn == u.top && u.con != nil) {
		if e.fn == u.top {
			con = u.con
		}
		for ord, ls := range con.Loops {
			for _, g := range ls.Ghosts {
				if g.Name == name {
					gt := g.goType(u.eng, fnPkg(e.fn))
					return TV{T: u.heap(e.st, fmt.Sprintf("lg$%s$%d$%s", mangle(e.fn.Name()), ord, name), u.ty.sortOf(gt)), Ty: gt}, true
				}
			}
		}
	}
	for _, p := range e.fn.Params {
		if p.Name() == name {
			if lv, ok := e.st.lvs[p]; ok {
				return TV{LV: lv, Ty: p.Type()}, true
			}
			if t, ok := e.st.regs[p]; ok {
				return TV{T: t, Ty: p.Type()}, true
			}
		}
	}
	vals := u.eng.debugVals(e.fn)[name]
	// the merged (phi) value of a variable wins over individual assignments
	var lastPhi *ssa.Phi
	for _, b := range e.fn.Blocks {
		for _, ins := range b.Instrs {
			if p, ok := ins.(*ssa.Phi); ok && p.Comment == name {
				if _, ok := e.st.regs[p]; ok {
					lastPhi = p
				}
			}
		}
	}
	if lastPhi != nil {
		return TV{T: e.st.regs[lastPhi], Ty: lastPhi.Type()}, true
	}
	// the variable exists in the function but is not defined on this path (e.g. a
	// postcondition evaluated at an early return): an arbitrary value of its type
	for _, b := range e.fn.Blocks {
		if e.noUndef {
			break
		}
		for _, ins := range b.Instrs {
			if p, ok := ins.(*ssa.Phi); ok && p.Comment == name {
				c := u.s.declConst("undef$"+mangle(e.fn.Name()+"$"+name), u.ty.sortOf(p.Type()))
				return TV{T: c, Ty: p.Type()}, true
			}
		}
	}
	var cands []TV
	seen := map[ssa.Value]bool{}
	for _, dv := range vals {
		if seen[dv.v] {
			continue
		}
		seen[dv.v] = true
		if dv.isAddr {
			if _, isAlloc := dv.v.(*ssa.Alloc); isAlloc {
				if r, ok := e.st.regs[dv.v]; ok {
					lv := u.lvForPointer(r, derefNamed(dv.v.Type()))
					cands = append(cands, TV{T: u.load(e.st, lv), Ty: derefNamed(dv.v.Type())})
				}
			}
			continue
		}
		if _, isPhi := dv.v.(*ssa.Phi); isPhi && e.loop != nil {
			// phis of other loops/joins: usable if defined in state
		}
		if t, ok := e.st.regs[dv.v]; ok {
			cands = append(cands, TV{T: t, Ty: dv.v.Type()})
		} else if c, ok := dv.v.(*ssa.Const); ok {
			cands = append(cands, TV{T: u.constTerm(c), Ty: c.Type()})
		}
	}
	if len(cands) == 0 {
		// declared in the function but not defined on this path: arbitrary value
		for _, dv := range vals {
			if e.noUndef {
				break
			}
			t := dv.v.Type()
			if dv.isAddr {
				t = derefNamed(t)
			}
			c := u.s.declConst("undef$"+mangle(e.fn.Name()+"$"+name), u.ty.sortOf(t))
			return TV{T: c, Ty: t}, true
		}
		return TV{}, false
	}
	// the merged (phi) value of the variable wins over the constants assigned to it
	for i := len(vals) - 1; i >= 0; i-- {
		if p, ok := vals[i].v.(*ssa.Phi); ok && p.Comment == name {
			if t, ok := e.st.regs[p]; ok {
				return TV{T: t, Ty: p.Type()}, true
			}
		}
	}

	// several SSA values for one source variable: they must agree textually
	for _, c := range cands[1:] {
		if c.T != cands[0].T {
			// prefer the latest defined (last in list)
			return cands[len(cands)-1], true
		}
	}
	return cands[0], true
}

func (e *Env) deref(v TV) TV {
	u := e.u
	if v.LV != nil {
		return TV{T: u.load(e.st, v.LV), Ty: v.LV.ty}
	}
	pt, ok := types.Unalias(v.Ty).Underlying().(*types.Pointer)
	if !ok {
		specErr("deref of %s", v.Ty)
	}
	lv := u.lvForPointer(v.T, pt.Elem())
	return TV{T: u.load(e.st, lv), Ty: pt.Elem()}
}

func (e *Env) selector(x *ast.SelectorExpr) TV {
	u := e.u
	// package-qualified?
	if id, ok := x.X.(*ast.Ident); ok {
		if _, isVar := e.vars[id.Name]; !isVar {
			if p := u.eng.pkgByName(id.Name, e.pkg); p != nil {
				if _, isLocal := e.localVarOK(id.Name); !isLocal {
					obj := p.Scope().Lookup(x.Sel.Name)
					if obj == nil {
						specErr("%s.%s not found", id.Name, x.Sel.Name)
					}
					sub := *e
					sub.pkg = p
					return sub.pkgObject(obj)
				}
			}
		}
	}
	base := e.eval(x.X)
	return e.field(base, x.Sel.Name)
}

func (e *Env) localVarOK(name string) (TV, bool) {
	if e.fn == nil {
		return TV{}, false
	}
	defer func() { recover() }()
	return e.localVar(name)
}

func (e *Env) field(base TV, name string) TV {
	u := e.u
	t := types.Unalias(base.Ty)
	// promoted fields of embedded structs: resolve the selection path first
	{
		lt := t
		if base.LV != nil {
			lt = base.LV.ty
		}
		if obj, index, _ := types.LookupFieldOrMethod(lt, true, nil, name); obj != nil && len(index) > 1 {
			if _, isVar := obj.(*types.Var); isVar {
				cur := base
				ct := lt
				for _, ix := range index {
					st := derefNamed(ct)
					sst, ok := st.Underlying().(*types.Struct)
					if !ok {
						specErr("promoted field %s: not a struct %s", name, st)
					}
					cur = e.field(cur, sst.Field(ix).Name())
					ct = sst.Field(ix).Type()
				}
				return cur
			}
		}
	}
	if base.LV != nil {
		st := u.structOf(base.LV.ty)
		for i := 0; i < st.NumFields(); i++ {
			if st.Field(i).Name() == name {
				lv := u.fieldLV(base.LV, i)
				return TV{T: u.load(e.st, lv), Ty: st.Field(i).Type()}
			}
		}
		specErr("no field %s in %s", name, base.LV.ty)
	}
	if pt, ok := t.Underlying().(*types.Pointer); ok {
		st, ok := pt.Elem().Underlying().(*types.Struct)
		if !ok {
			specErr("field %s of pointer to non-struct %s", name, t)
		}
		for i := 0; i < st.NumFields(); i++ {
			if st.Field(i).Name() == name {
				lv := u.fieldLV(u.lvForPointer(base.T, pt.Elem()), i)
				return TV{T: u.load(e.st, lv), Ty: st.Field(i).Type()}
			}
		}
		specErr("no field %s in %s", name, pt.Elem())
	}
	if st, ok := t.Underlying().(*types.Struct); ok {
		for i := 0; i < st.NumFields(); i++ {
			if st.Field(i).Name() == name {
				return TV{T: sx(u.ty.selName(u.ty.sortOf(t), name), base.T), Ty: st.Field(i).Type()}
			}
		}
		specErr("no field %s in %s", name, t)
	}
	specErr("field %s of %s", name, t)
	return TV{}
}

func (e *Env) index(x *ast.IndexExpr) TV {
	u := e.u
	base := e.eval(x.X)
	idx := e.eval(x.Index)
	if ps, ok := pseudoSort(base.Ty); ok {
		_, vs, ok := arraySorts(ps)
		if !ok {
			specErr("index on non-array sort %s", ps)
		}
		return TV{T: sx("select", base.T, idx.T), Ty: pseudoType(vs)}
	}
	switch t := types.Unalias(base.Ty).Underlying().(type) {
	case *types.Slice:
		if isBytesType(base.Ty) {
			specErr("indexing abstract bytes")
		}
		hn, hs := u.elemHeap(t.Elem())
		return TV{T: sx("select", sx("select", u.heap(e.st, hn, hs), sx("slc_arr", base.T)), sx("ix", sx("slc_off", base.T), idx.T)), Ty: t.Elem()}
	case *types.Map:
		_, _, vn, vs := u.mapHeaps(base.Ty)
		return TV{T: sx("select", sx("select", u.heap(e.st, vn, vs), base.T), idx.T), Ty: t.Elem()}
	case *types.Array:
		return TV{T: sx("select", base.T, idx.T), Ty: t.Elem()}
	}
	specErr("index on %s", base.Ty)
	return TV{}
}

func (e *Env) binary(x *ast.BinaryExpr) TV {
	u := e.u
	switch x.Op {
	case token.LAND:
		return TV{T: and(e.eval(x.X).T, e.eval(x.Y).T), Ty: tBool}
	case token.LOR:
		return TV{T: or(e.eval(x.X).T, e.eval(x.Y).T), Ty: tBool}
	}
	a, b := e.eval(x.X), e.eval(x.Y)
	if a.Ty == untypedNil && b.Ty != untypedNil {
		a = TV{T: u.ty.zero(b.Ty), Ty: b.Ty}
	}
	if b.Ty == untypedNil && a.Ty != untypedNil {
		b = TV{T: u.ty.zero(a.Ty), Ty: a.Ty}
	}
	switch x.Op {
	case token.EQL, token.NEQ:
		var r Term
		_, isSlice := types.Unalias(a.Ty).Underlying().(*types.Slice)
		if isBytesType(a.Ty) {
			r = eq(a.T, b.T)
		} else if isSlice && a.T != "(mk_slc 0 0 0 0)" && b.T != "(mk_slc 0 0 0 0)" {
			// specification-level equality of slice headers (same backing, offset, length)
			r = eq(a.T, b.T)
		} else {
			r = u.equal(a.Ty, a.T, b.T)
		}
		if x.Op == token.NEQ {
			r = not(r)
		}
		return TV{T: r, Ty: tBool}
	case token.LSS:
		return TV{T: u.cmp(a.Ty, "<", a.T, b.T), Ty: tBool}
	case token.LEQ:
		return TV{T: u.cmp(a.Ty, "<=", a.T, b.T), Ty: tBool}
	case token.GTR:
		return TV{T: u.cmp(a.Ty, ">", a.T, b.T), Ty: tBool}
	case token.GEQ:
		return TV{T: u.cmp(a.Ty, ">=", a.T, b.T), Ty: tBool}
	case token.ADD:
		if isString(a.Ty) {
			return TV{T: sx("sconcat", a.T, b.T), Ty: a.Ty}
		}
		return TV{T: sx("+", a.T, b.T), Ty: a.Ty}
	case token.SUB:
		return TV{T: sx("-", a.T, b.T), Ty: a.Ty}
	case token.MUL:
		return TV{T: sx("*", a.T, b.T), Ty: a.Ty}
	case token.QUO:
		return TV{T: sx("div", a.T, b.T), Ty: a.Ty}
	case token.REM:
		return TV{T: sx("mod", a.T, b.T), Ty: a.Ty}
	}
	specErr("binary %s", x.Op)
	return TV{}
}

func (e *Env) quant(q string, args []ast.Expr) TV {
	u := e.u
	var name string
	var ty types.Type = tInt
	var body ast.Expr
	id, ok := args[0].(*ast.Ident)
	if !ok {
		specErr("%s: first argument must be a variable", q)
	}
	name = id.Name
	switch len(args) {
	case 2:
		body = args[1]
	case 3:
		ty = e.resolveType(args[1])
		body = args[2]
	default:
		specErr("%s arity", q)
	}
	srt := u.ty.sortOf(ty)
	u.s.nfresh++
	bv := fmt.Sprintf("q_%s!%d", mangle(name), u.s.nfresh)
	sub := e.sub(map[string]TV{name: {T: bv, Ty: ty}})
	sub.bound = append(append([]string{}, e.bound...), bv)
	b := sub.eval(body)
	// typing facts of the bound variable are assumed inside
	rf := u.ty.rangeFact(bv, ty, "")
	var inner Term
	if q == "forall" {
		inner = implies(rf, b.T)
	} else {
		inner = and(rf, b.T)
	}
	// flatten directly nested quantifiers of the same kind
	if q == "forall" && rf == "true" && strings.HasPrefix(b.T, "(forall (") {
		rest := strings.TrimPrefix(b.T, "(forall (")
		return TV{T: fmt.Sprintf("(forall ((%s %s) %s", bv, srt, rest), Ty: tBool}
	}
	if q == "exists" && rf == "true" && strings.HasPrefix(b.T, "(exists (") {
		rest := strings.TrimPrefix(b.T, "(exists (")
		return TV{T: fmt.Sprintf("(exists ((%s %s) %s", bv, srt, rest), Ty: tBool}
	}
	return TV{T: fmt.Sprintf("(%s ((%s %s)) %s)", q, bv, srt, inner), Ty: tBool}
}

func (e *Env) callExpr(x *ast.CallExpr) TV {
	u := e.u
	// method call on a value: x.M(args)
	if sel, ok := x.Fun.(*ast.SelectorExpr); ok {
		isPkg := false
		if id, ok := sel.X.(*ast.Ident); ok {
			if _, isVar := e.vars[id.Name]; !isVar {
				if _, isLocal := e.localVarOK(id.Name); !isLocal && u.eng.pkgByName(id.Name, e.pkg) != nil {
					isPkg = true
				}
			}
		}
		if !isPkg {
			recv := e.eval(sel.X)
			var args []TV
			for _, a := range x.Args {
				args = append(args, e.eval(a))
			}
			return e.methodCall(recv, sel.Sel.Name, args)
		}
	}
	name := types.ExprString(x.Fun)
	switch name {
	case "old":
		sub := *e
		sub.st = e.old
		return sub.eval(x.Args[0])
	case "atStart":
		// atStart(e): the value of e at the start of the current loop iteration (loop invariants only)
		if e.hdr == nil {
			specErr("atStart() outside a loop invariant")
		}
		sub := *e
		sub.st = e.hdr
		return sub.eval(x.Args[0])
	case "forall", "exists":
		return e.quant(name, x.Args)
	case "implies":
		return TV{T: implies(e.eval(x.Args[0]).T, e.eval(x.Args[1]).T), Ty: tBool}
	case "iff":
		return TV{T: eq(e.eval(x.Args[0]).T, e.eval(x.Args[1]).T), Ty: tBool}
	case "ite":
		c, a, b := e.eval(x.Args[0]), e.eval(x.Args[1]), e.eval(x.Args[2])
		if a.Ty == untypedNil {
			a = TV{T: u.ty.zero(b.Ty), Ty: b.Ty}
		}
		if b.Ty == untypedNil {
			b = TV{T: u.ty.zero(a.Ty), Ty: a.Ty}
		}
		return TV{T: ite(c.T, a.T, b.T), Ty: a.Ty}
	case "len":
		v := e.eval(x.Args[0])
		switch {
		case isBytesType(v.Ty):
			return TV{T: sx("blen", v.T), Ty: tInt}
		case isString(v.Ty):
			return TV{T: sx("slen", v.T), Ty: tInt}
		}
		switch v.Ty.Underlying().(type) {
		case *types.Slice:
			return TV{T: sx("slc_len", v.T), Ty: tInt}
		case *types.Map:
			return TV{T: u.mapLen(e.st, v.Ty, v.T), Ty: tInt}
		}
		specErr("len of %s", v.Ty)
	case "cap":
		v := e.eval(x.Args[0])
		return TV{T: sx("slc_cap", v.T), Ty: tInt}
	case "has":
		m, k := e.eval(x.Args[0]), e.eval(x.Args[1])
		dn, ds, _, _ := u.mapHeaps(m.Ty)
		return TV{T: and(not(eq(m.T, "0")), sx("select", sx("select", u.heap(e.st, dn, ds), m.T), k.T)), Ty: tBool}
	case "errIs":
		a, b := e.eval(x.Args[0]), e.eval(x.Args[1])
		return TV{T: sx("errIs", a.T, b.T), Ty: tBool}
	case "notNil":
		// interface value that is neither nil nor a typed nil pointer
		v := e.eval(x.Args[0])
		if u.ty.sortOf(v.Ty) != SIfc {
			return TV{T: not(u.equal(v.Ty, v.T, u.ty.zero(v.Ty))), Ty: tBool}
		}
		return TV{T: and(not(eq(sx("ifc_tag", v.T), "0")), implies(sx("isPtrTag", sx("ifc_tag", v.T)), not(eq(sx("ifc_pay", v.T), "0")))), Ty: tBool}
	case "isNil":
		v := e.eval(x.Args[0])
		return TV{T: u.equal(v.Ty, v.T, u.ty.zero(v.Ty)), Ty: tBool}
	case "typeIs":
		v := e.eval(x.Args[0])
		t := e.resolveType(x.Args[1])
		if it, ok := t.Underlying().(*types.Interface); ok {
			return TV{T: u.eng.implementsTerm(u, sx("ifc_tag", v.T), it, t), Ty: tBool}
		}
		return TV{T: eq(sx("ifc_tag", v.T), intLit(u.ty.tagOf(t))), Ty: tBool}
	case "as":
		// as(x, T): payload of interface x viewed as concrete type T
		v := e.eval(x.Args[0])
		t := e.resolveType(x.Args[1])
		return TV{T: u.ty.fromIfc(t, v.T), Ty: t}
	case "toIfc":
		v := e.eval(x.Args[0])
		var it types.Type = types.NewInterfaceType(nil, nil)
		if len(x.Args) > 1 {
			it = e.resolveType(x.Args[1])
		}
		return TV{T: u.ty.mkIfc(v.Ty, v.T), Ty: it}
	case "upd":
		m, k, v := e.eval(x.Args[0]), e.eval(x.Args[1]), e.eval(x.Args[2])
		return TV{T: sx("store", m.T, k.T, v.T), Ty: m.Ty}
	case "visited":
		// visited(k): key k of the map ranged over by the current loop has been visited already
		if e.loop == nil || e.fn == nil {
			specErr("visited() outside a loop invariant")
		}
		k := e.eval(x.Args[0])
		// the current loop, or the innermost enclosing loop, that ranges over a map
		var cands []*loopInfo
		cands = append(cands, e.loop)
		for _, l := range findLoops(e.fn) {
			if l.header != e.loop.header && l.blocks[e.loop.header] {
				cands = append(cands, l)
			}
		}
		sort.Slice(cands[1:], func(i, j int) bool { return len(cands[1+i].blocks) < len(cands[1+j].blocks) })
		for _, l := range cands {
			for _, ins := range l.header.Instrs {
				if nx, ok := ins.(*ssa.Next); ok {
					if rs, ok := u.ranges[nx.Iter]; ok {
						mt := rs.mapT.Underlying().(*types.Map)
						return TV{T: sx("select", u.heap(e.st, rs.visited, arrSort(u.ty.sortOf(mt.Key()), SBool)), k.T), Ty: tBool}
					}
				}
			}
		}
		specErr("visited(): no enclosing loop ranges over a map")
	case "isOpt":
		// isOpt(v, "withX"): the function value v is a closure made by the option constructor withX of this package
		v := e.eval(x.Args[0])
		nm, _ := strconv.Unquote(x.Args[1].(*ast.BasicLit).Value)
		scopePkg := e.pkg
		if i := strings.Index(nm, "."); i > 0 {
			if p := u.eng.pkgByName(nm[:i], e.pkg); p != nil {
				scopePkg, nm = p, nm[i+1:]
			}
		}
		obj, ok := scopePkg.Scope().Lookup(nm).(*types.Func)
		if !ok {
			specErr("isOpt: no function %s", nm)
		}
		ctor := u.eng.prog.FuncValue(obj)
		if ctor == nil || len(ctor.AnonFuncs) != 1 {
			specErr("isOpt: %s is not an option constructor with exactly one closure", nm)
		}
		u.s.declFun("closure_fn", []Sort{SInt}, SInt)
		fid := intLit(u.eng.funcID(ctor.AnonFuncs[0]))
		return TV{T: or(eq(v.T, fid), and(sx("<", v.T, "0"), eq(sx("closure_fn", v.T), fid))), Ty: tBool}
	case "optArg":
		// optArg(v, T): the (first) value captured by the closure v, viewed as type T
		v := e.eval(x.Args[0])
		t := e.resolveType(x.Args[1])
		srt := u.ty.sortOf(t)
		fn := "closure_b$" + mangle(string(srt))
		u.s.declFun(fn, []Sort{SInt, SInt}, srt)
		return TV{T: sx(fn, v.T, "0"), Ty: t}
	case "alloc":
		return TV{T: u.alloc(e.st), Ty: tInt}
	case "fresh":
		// fresh(p): object allocated during the call
		v := e.eval(x.Args[0])
		return TV{T: sx(">", v.T, u.alloc(e.old)), Ty: tBool}
	case "uint64", "int", "int64", "uint", "uint32", "int32":
		v := e.eval(x.Args[0])
		return TV{T: v.T, Ty: e.u.eng.resolveTypeString(name, e.pkg)}
	case "string":
		v := e.eval(x.Args[0])
		if isBytesType(v.Ty) {
			return TV{T: sx("b2s", v.T), Ty: tString}
		}
		return TV{T: v.T, Ty: tString}
	case "strings.HasPrefix", "strings.HasSuffix", "strings.Contains":
		a, b := e.eval(x.Args[0]), e.eval(x.Args[1])
		fn := map[string]string{"strings.HasPrefix": "str_hasprefix", "strings.HasSuffix": "str_hassuffix", "strings.Contains": "str_contains"}[name]
		u.s.declFun(fn, []Sort{SStr, SStr}, SBool)
		if fn == "str_hasprefix" {
			u.prefixFacts()
		}
		return TV{T: sx(fn, a.T, b.T), Ty: tBool}
	case "cutBefore", "cutAfter", "cutFound":
		a, b := e.eval(x.Args[0]), e.eval(x.Args[1])
		u.s.declFun("str_cut_before", []Sort{SStr, SStr}, SStr)
		u.s.declFun("str_cut_after", []Sort{SStr, SStr}, SStr)
		u.s.declFun("str_cut_found", []Sort{SStr, SStr}, SBool)
		switch name {
		case "cutBefore":
			return TV{T: sx("str_cut_before", a.T, b.T), Ty: tString}
		case "cutAfter":
			return TV{T: sx("str_cut_after", a.T, b.T), Ty: tString}
		}
		return TV{T: sx("str_cut_found", a.T, b.T), Ty: tBool}
	case "splitN":
		a, b := e.eval(x.Args[0]), e.eval(x.Args[1])
		u.s.declFun("str_split_n", []Sort{SStr, SStr}, SInt)
		return TV{T: sx("str_split_n", a.T, b.T), Ty: tInt}
	case "splitAt":
		a, b, c := e.eval(x.Args[0]), e.eval(x.Args[1]), e.eval(x.Args[2])
		u.s.declFun("str_split_at", []Sort{SStr, SStr, SInt}, SStr)
		return TV{T: sx("str_split_at", a.T, b.T, c.T), Ty: tString}
	case "parseUintOK":
		a := e.eval(x.Args[0])
		u.s.declFun("str_parseuint_ok", []Sort{SStr}, SBool)
		return TV{T: sx("str_parseuint_ok", a.T), Ty: tBool}
	case "parseUint":
		a := e.eval(x.Args[0])
		u.s.declFun("str_parseuint", []Sort{SStr}, SInt)
		return TV{T: sx("str_parseuint", a.T), Ty: types.Typ[types.Uint64]}
	case "validHex":
		a := e.eval(x.Args[0])
		u.s.declFun("str_validhex", []Sort{SStr}, SBool)
		return TV{T: sx("str_validhex", a.T), Ty: tBool}
	case "unhex":
		a := e.eval(x.Args[0])
		return TV{T: sx("unhex", a.T), Ty: types.NewSlice(types.Typ[types.Byte])}
	case "hexstr":
		a := e.eval(x.Args[0])
		return TV{T: sx("hexstr", a.T), Ty: tString}
	case "strings.TrimSuffix", "strings.TrimPrefix":
		a, b := e.eval(x.Args[0]), e.eval(x.Args[1])
		fn := map[string]string{"strings.TrimSuffix": "str_trimsuffix", "strings.TrimPrefix": "str_trimprefix"}[name]
		u.s.declFun(fn, []Sort{SStr, SStr}, SStr)
		return TV{T: sx(fn, a.T, b.T), Ty: tString}
	case "strings.TrimSpace":
		a := e.eval(x.Args[0])
		u.s.declFun("str_trimspace", []Sort{SStr}, SStr)
		return TV{T: sx("str_trimspace", a.T), Ty: tString}
	case "smt":
		// smt("(raw %1 %2)", ResultType, args...)
		f, _ := strconv.Unquote(x.Args[0].(*ast.BasicLit).Value)
		t := e.resolveType(x.Args[1])
		for i, a := range x.Args[2:] {
			f = strings.ReplaceAll(f, fmt.Sprintf("%%%d", i+1), e.eval(a).T)
		}
		return TV{T: f, Ty: t}
	}
	if sf, ok := u.eng.specFuncs[name]; ok {
		var args []TV
		for _, a := range x.Args {
			args = append(args, e.eval(a))
		}
		return e.specCall(sf, args)
	}
	// call of a (pure) Go function of the package: inline it
	if e.pkg != nil {
		if obj, ok := e.pkg.Scope().Lookup(name).(*types.Func); ok {
			f := u.eng.prog.FuncValue(obj)
			var args []TV
			for _, a := range x.Args {
				args = append(args, e.eval(a))
			}
			return e.pureCall(f, args)
		}
	}
	specErr("unknown function %q", name)
	return TV{}
}

func (e *Env) specCall(sf *SpecFunc, args []TV) TV {
	u := e.u
	pkg := u.eng.pkgByPath(sf.PkgPath)
	if len(args) != len(sf.Params) {
		specErr("%s: expected %d arguments", sf.Name, len(sf.Params))
	}
	rt := u.eng.resolveTypeString(sf.RType, pkg)
	if sf.Body == "" {
		var sorts []Sort
		var ts []Term
		for i, a := range args {
			pt := u.eng.resolveTypeString(sf.PTypes[i], pkg)
			if a.Ty == untypedNil {
				a = TV{T: u.ty.zero(pt), Ty: pt}
			}
			sorts = append(sorts, u.ty.sortOf(pt))
			ts = append(ts, a.T)
		}
		fn := "sp$" + mangle(sf.Name)
		u.s.declFun(fn, sorts, u.ty.sortOf(rt))
		return TV{T: sx(fn, ts...), Ty: rt}
	}
	if e.depth > 12 {
		specErr("define %s: expansion too deep (recursive?)", sf.Name)
	}
	vars := map[string]TV{}
	for i, p := range sf.Params {
		pt := u.eng.resolveTypeString(sf.PTypes[i], pkg)
		a := args[i]
		if a.Ty == untypedNil {
			a = TV{T: u.ty.zero(pt), Ty: pt}
		}
		a.Ty = pt
		vars[p] = a
	}
	sub := &Env{u: u, vars: vars, st: e.st, old: e.old, pkg: pkg, depth: e.depth + 1, bound: e.bound}
	r := sub.eval(parseSpecExpr(sf.Body))
	r.Ty = rt
	// name large closed expansions once (keeps queries small, lets the solver share them)
	if len(r.T) > 200 && u.s.specMode == 0 {
		closed := true
		for _, bv := range e.bound {
			if strings.Contains(r.T, bv) {
				closed = false
				break
			}
		}
		if closed {
			if c, ok := u.s.defMemo[r.T]; ok {
				r.T = c
			} else {
				c := u.s.fresh("def_"+sf.Name, u.ty.sortOf(rt))
				u.s.assumeGlobal(eq(c, r.T))
				u.s.defMemo[r.T] = c
				r.T = c
			}
		}
	}
	return r
}

// methodCall evaluates a pure method on a value by inlining its body.
func (e *Env) methodCall(recv TV, name string, args []TV) TV {
	u := e.u
	t := types.Unalias(recv.Ty)
	if it, ok := t.Underlying().(*types.Interface); ok {
		_ = it
		impls := u.eng.implementationsByName(t, name)
		if len(impls) == 0 {
			specErr("no implementation of %s.%s", t, name)
		}
		var res TV
		tag := sx("ifc_tag", recv.T)
		for i := len(impls) - 1; i >= 0; i-- {
			im := impls[i]
			rv := u.ty.fromIfc(im.recvT, recv.T)
			if im.deref {
				rv = u.load(e.st, u.lvForPointer(rv, derefNamed(im.recvT)))
			}
			r := e.pureCall(im.fn, append([]TV{{T: rv, Ty: im.fn.Params[0].Type()}}, args...))
			if i == len(impls)-1 {
				res = r
			} else {
				res = TV{T: ite(eq(tag, intLit(u.ty.tagOf(im.recvT))), r.T, res.T), Ty: r.Ty}
			}
		}
		return res
	}
	// concrete receiver
	ms := u.eng.prog.MethodSets.MethodSet(t)
	sel := ms.Lookup(e.pkgOfType(t), name)
	if sel == nil {
		if _, isPtr := t.Underlying().(*types.Pointer); !isPtr {
			ms = u.eng.prog.MethodSets.MethodSet(types.NewPointer(t))
			sel = ms.Lookup(e.pkgOfType(t), name)
		}
	}
	if sel == nil {
		specErr("no method %s on %s", name, t)
	}
	f := u.eng.prog.MethodValue(sel)
	// receiver adjustments
	want := f.Params[0].Type()
	rv := recv
	if _, wantPtr := want.Underlying().(*types.Pointer); !wantPtr {
		if _, havePtr := t.Underlying().(*types.Pointer); havePtr {
			rv = e.deref(recv)
		}
	}
	return e.pureCall(f, append([]TV{rv}, args...))
}

func (e *Env) pkgOfType(t types.Type) *types.Package {
	if p, ok := t.Underlying().(*types.Pointer); ok {
		t = p.Elem()
	}
	if n, ok := types.Unalias(t).(*types.Named); ok {
		return n.Obj().Pkg()
	}
	return e.pkg
}

// pureCall inlines a Go function inside a specification; it must not write.
func (e *Env) pureCall(f *ssa.Function, args []TV) TV {
	u := e.u
	if f.Synthetic != "" && f.Blocks != nil && len(f.Blocks) == 1 {
		// wrapper: fine, inline
	}
	if why := u.whyNotInline(f); why != "" {
		// a contract with a single functional ensures "result == e" could be used; not supported
		specErr("pure call of %s in a specification: %s", f.String(), why)
	}
	in := &State{reach: "true", regs: map[ssa.Value]Term{}, tups: map[ssa.Value][]Term{}, lvs: map[ssa.Value]*LV{}, heaps: map[string]Term{}}
	for k, v := range e.st.heaps {
		in.heaps[k] = v
	}
	for i, p := range f.Params {
		if args[i].LV != nil {
			in.lvs[p] = args[i].LV
		} else {
			a := args[i]
			if a.Ty == untypedNil {
				a.T = u.ty.zero(p.Type())
			}
			in.regs[p] = a.T
		}
	}
	u.s.specMode++
	u.stack = append(u.stack, f)
	out, res := u.execBody(f, in, false)
	u.stack = u.stack[:len(u.stack)-1]
	u.s.specMode--
	_ = out
	if len(res) != 1 {
		specErr("pure call %s must have exactly one result", f.Name())
	}
	return TV{T: res[0], Ty: f.Signature.Results().At(0).Type()}
}

func loopGhostHeap(fn *ssa.Function, l *loopInfo, name string) string {
	return fmt.Sprintf("lg$%s$%d$%s", mangle(fn.Name()), l.ordinal, name)
}
