package main

// Forward symbolic execution of one go/ssa function into SMT facts and
// obligations. Loops are cut at their header by an invariant (unbounded) or
// unrolled N times with an unwinding obligation (bounded).

import (
	"fmt"
	"go/constant"
	"go/token"
	"go/types"
	"sort"
	"strings"

	"golang.org/x/tools/go/ssa"
)

type Obl struct {
	Name   string // Func#kind.label@site
	Kind   string // post | pre | inv.init | inv.keep | safety | unwind | frame | lemma | assert
	Label  string
	Func   string
	Props  []string
	Bound  int // >0 when generated under bounded unrolling
	nfacts int
	anc    map[int]bool
	guard  Term
	goal   Term
	Pos    string
	script *Script
	// results
	Res     SolverResult
	Retried bool
}

// LV is a statically tracked lvalue (pointer target).
type LV struct {
	kind  int // lvField, lvBox, lvElem, lvGlobal, lvObj
	heap  string
	sort  Sort   // sort of the cell content
	ref   Term   // object ref / backing
	idx   Term   // element index (absolute, offset included)
	cellT types.Type
	path  []int      // struct field path inside the cell
	ty    types.Type // type of the designated location (after path)
}

const (
	lvField = iota
	lvBox
	lvElem
	lvGlobal
	lvObj // whole module struct object: fields live in separate heaps
)

type State struct {
	reach Term
	regs  map[ssa.Value]Term
	tups  map[ssa.Value][]Term
	lvs   map[ssa.Value]*LV
	heaps map[string]Term
	dead  bool
}

func (st *State) clone() *State {
	n := &State{reach: st.reach, regs: make(map[ssa.Value]Term, len(st.regs)+8), tups: make(map[ssa.Value][]Term, len(st.tups)), lvs: make(map[ssa.Value]*LV, len(st.lvs)), heaps: make(map[string]Term, len(st.heaps))}
	for k, v := range st.regs {
		n.regs[k] = v
	}
	for k, v := range st.tups {
		n.tups[k] = v
	}
	for k, v := range st.lvs {
		n.lvs[k] = v
	}
	for k, v := range st.heaps {
		n.heaps[k] = v
	}
	return n
}

type Unit struct {
	eng      *Engine
	s        *Script
	ty       *Types
	top      *ssa.Function
	con      *Contract
	obls     []*Obl
	heapSort map[string]Sort
	notes    map[string]bool // assumptions touched
	depth    int
	stack    []*ssa.Function
	bound    int
	entry    *State // state at function entry (for old())
	results  []Term
	siteN    map[string]int
	ghostUpd map[string]int
	curFn    *ssa.Function
	params   map[string]TV

	closures       map[Term]*ssa.MakeClosure
	ranges         map[ssa.Value]*rangeState
	pass1          bool
	loopMods       map[string]map[string]*modRec
	refBirth       map[Term]map[string]bool
	activeLoops    []string
	retInfos       []retInfo
	sentinels      []sentinel
	usedContracts  map[string]bool
	nRequiresFacts int
	curAnc         map[int]bool
	nodeAnc        map[int]map[int]bool
	freshErrs      []Term
	assignCover    map[string]bool
	assignRefs     map[string][]Term
	prefixDone     map[string]bool
	refHeaps       map[string]bool
	defers         map[*ssa.Function][]*deferRec
	afterRes       []Term
	afterSig       *types.Signature
}

func (u *Unit) note(format string, a ...any) { u.notes[fmt.Sprintf(format, a...)] = true }

// ---------------------------------------------------------------------------
// heaps

func (u *Unit) heap(st *State, name string, sort Sort) Term {
	if h, ok := st.heaps[name]; ok {
		return h
	}
	u.heapSort[name] = sort
	first := !u.s.declared["c:"+name+"@0"]
	c := u.s.declConst(name+"@0", sort)
	if first {
		u.s.declConst("alloc@0", SInt)
		u.heapWellFormed(name, c, sort, "alloc@0", "true", true)
	}
	return c
}

// initialHeapWellFormed: every reference stored in the heap at unit entry designates an object that
// already exists (no dangling "future" references): needed to carry facts about old objects across
// allocations.
func (u *Unit) heapWellFormed(name string, c Term, sort Sort, a0 Term, guard Term, global bool) {
	assume := func(f Term) {
		if global {
			u.s.assumeGlobal(f)
		} else {
			u.s.assume(implies(guard, f))
		}
	}
	wf := func(v Term, srt string) Term {
		switch srt {
		case "Slc":
			return and(sx("<=", sx("slc_arr", v), a0), sx(">=", sx("slc_arr", v), "0"))
		case "Ifc":
			return implies(sx("isPtrTag", sx("ifc_tag", v)), and(sx("<=", sx("ifc_pay", v), a0), sx(">=", sx("ifc_pay", v), "0")))
		case "Int":
			if u.refHeaps[name] {
				return and(sx("<=", v, a0), sx(">=", v, "0"))
			}
		}
		// struct-valued cells: references held in their fields exist too
		if strings.HasPrefix(srt, "S_") {
			if st, ok := u.ty.structs[strings.TrimPrefix(srt, "S_")]; ok && !u.ty.opaque[strings.TrimPrefix(srt, "S_")] {
				var fs []Term
				for i := 0; i < st.NumFields(); i++ {
					f := st.Field(i)
					sel := sx(u.ty.selName(Sort(srt), f.Name()), v)
					switch {
					case isRefLike(f.Type()):
						fs = append(fs, and(sx("<=", sel, a0), sx(">=", sel, "0")))
					case u.ty.sortOf(f.Type()) == SSlc:
						fs = append(fs, and(sx("<=", sx("slc_arr", sel), a0), sx(">=", sx("slc_arr", sel), "0")))
					case u.ty.sortOf(f.Type()) == SIfc:
						fs = append(fs, implies(sx("isPtrTag", sx("ifc_tag", sel)), and(sx("<=", sx("ifc_pay", sel), a0), sx(">=", sx("ifc_pay", sel), "0"))))
					}
				}
				return and(fs...)
			}
		}
		return "true"
	}
	s := string(sort)
	switch {
	case strings.HasPrefix(name, "HS$"):
		if _, inner, ok := arraySorts(s); ok {
			if _, el, ok := arraySorts(inner); ok {
				if f := wf("(select (select "+c+" b) i)", el); f != "true" {
					assume(fmt.Sprintf("(forall ((b Int) (i Int)) (! %s :pattern ((select (select %s b) i))))", f, c))
				}
			}
		}
	case strings.HasPrefix(name, "H$") || strings.HasPrefix(name, "HB$"):
		if _, el, ok := arraySorts(s); ok {
			if f := wf("(select "+c+" r)", el); f != "true" {
				assume(fmt.Sprintf("(forall ((r Int)) (! %s :pattern ((select %s r))))", f, c))
			}
		}
	case strings.HasPrefix(name, "HMv$"):
		if _, inner, ok := arraySorts(s); ok {
			if ks, el, ok := arraySorts(inner); ok {
				if f := wf("(select (select "+c+" m) k)", el); f != "true" {
					assume(fmt.Sprintf("(forall ((m Int) (k %s)) (! %s :pattern ((select (select %s m) k))))", ks, f, c))
				}
			}
		}
	}
}

func (u *Unit) setHeap(st *State, name string, sort Sort, t Term) {
	u.heapSort[name] = sort
	st.heaps[name] = u.s.define(name, sort, t)
}

func (u *Unit) havocHeap(st *State, name string) Term {
	srt, ok := u.heapSort[name]
	if !ok {
		panic("havoc of unknown heap " + name)
	}
	c := u.s.fresh(name, srt)
	st.heaps[name] = c
	return c
}

func arrSort(idx, elem Sort) Sort { return Sort(fmt.Sprintf("(Array %s %s)", idx, elem)) }

func (u *Unit) alloc(st *State) Term { return u.heap(st, "alloc", SInt) }

func (u *Unit) newRef(st *State, what string) Term {
	r := u.s.fresh("new_"+what, SInt)
	u.s.assume(implies(st.reach, sx(">", r, u.alloc(st))))
	st.heaps["alloc"] = r
	u.heapSort["alloc"] = SInt
	b := map[string]bool{}
	for _, lk := range u.activeLoops {
		b[lk] = true
	}
	u.refBirth[r] = b
	return r
}

func (u *Unit) fieldHeapName(structT types.Type, field string) string {
	return "H$" + typeKey(structT) + "$" + mangle(field)
}

func derefNamed(t types.Type) types.Type {
	t = types.Unalias(t)
	if p, ok := t.Underlying().(*types.Pointer); ok {
		return types.Unalias(p.Elem())
	}
	return t
}

// lvForPointer builds the lvalue designated by a whole-object pointer value.
func (u *Unit) lvForPointer(ref Term, elemT types.Type) *LV {
	elemT = types.Unalias(elemT)
	if st, ok := elemT.Underlying().(*types.Struct); ok && !u.ty.isOpaqueStruct(elemT) && !isBytesType(elemT) {
		_ = st
		return &LV{kind: lvObj, ref: ref, cellT: elemT, ty: elemT}
	}
	if arr, ok := elemT.Underlying().(*types.Array); ok {
		// pointer to array: elements in the element heap at backing=ref
		_ = arr
		return &LV{kind: lvBox, heap: "HA$" + typeKey(elemT), sort: arrSort(SInt, u.ty.sortOf(elemT)), ref: ref, cellT: elemT, ty: elemT}
	}
	return &LV{kind: lvBox, heap: "HB$" + typeKey(elemT), sort: arrSort(SInt, u.ty.sortOf(elemT)), ref: ref, cellT: elemT, ty: elemT}
}

func (u *Unit) structOf(t types.Type) *types.Struct {
	st, ok := types.Unalias(t).Underlying().(*types.Struct)
	if !ok {
		unsupp("not a struct: %s", t)
	}
	return st
}

func (u *Unit) fieldLV(base *LV, field int) *LV {
	st := u.structOf(base.ty)
	f := st.Field(field)
	if base.kind == lvObj {
		if isRefLike(f.Type()) {
			u.refHeaps[u.fieldHeapName(base.cellT, f.Name())] = true
		}
		fs := u.ty.sortOf(f.Type())
		return &LV{kind: lvField, heap: u.fieldHeapName(base.cellT, f.Name()), sort: arrSort(SInt, fs), ref: base.ref, cellT: f.Type(), ty: f.Type()}
	}
	if u.ty.isOpaqueStruct(base.ty) {
		unsupp("field of opaque struct %s", base.ty)
	}
	n := *base
	n.path = append(append([]int{}, base.path...), field)
	n.ty = f.Type()
	return &n
}

// readCell reads the whole cell content of an lvalue (ignoring path).
func (u *Unit) readCell(st *State, lv *LV) Term {
	switch lv.kind {
	case lvField, lvBox:
		return sx("select", u.heap(st, lv.heap, lv.sort), lv.ref)
	case lvElem:
		return sx("select", sx("select", u.heap(st, lv.heap, lv.sort), lv.ref), lv.idx)
	case lvGlobal:
		return u.heap(st, lv.heap, lv.sort)
	case lvObj:
		stt := u.structOf(lv.cellT)
		srt := u.ty.sortOf(lv.cellT)
		var fs []Term
		for i := 0; i < stt.NumFields(); i++ {
			fs = append(fs, u.load(st, u.fieldLV(lv, i)))
		}
		return sx("mk_"+string(srt), fs...)
	}
	panic("readCell")
}

func (u *Unit) writeCell(st *State, lv *LV, v Term) {
	switch lv.kind {
	case lvField, lvBox:
		u.setHeapTracked(st, lv.heap, lv.sort, sx("store", u.heap(st, lv.heap, lv.sort), lv.ref, v), lv.ref, false)
	case lvElem:
		h := u.heap(st, lv.heap, lv.sort)
		u.setHeapTracked(st, lv.heap, lv.sort, sx("store", h, lv.ref, sx("store", sx("select", h, lv.ref), lv.idx, v)), lv.ref, false)
	case lvGlobal:
		u.setHeapTracked(st, lv.heap, lv.sort, v, "", false)
	case lvObj:
		stt := u.structOf(lv.cellT)
		srt := u.ty.sortOf(lv.cellT)
		for i := 0; i < stt.NumFields(); i++ {
			u.store(st, u.fieldLV(lv, i), sx(u.ty.selName(srt, stt.Field(i).Name()), v))
		}
	}
}

func (u *Unit) load(st *State, lv *LV) Term {
	v := u.readCell(st, lv)
	t := lv.cellT
	for _, fi := range lv.path {
		stt := u.structOf(t)
		v = sx(u.ty.selName(u.ty.sortOf(t), stt.Field(fi).Name()), v)
		t = stt.Field(fi).Type()
	}
	return v
}

func (u *Unit) updatePath(t types.Type, cur Term, path []int, v Term) Term {
	if len(path) == 0 {
		return v
	}
	stt := u.structOf(t)
	srt := u.ty.sortOf(t)
	var fs []Term
	for i := 0; i < stt.NumFields(); i++ {
		sel := sx(u.ty.selName(srt, stt.Field(i).Name()), cur)
		if i == path[0] {
			fs = append(fs, u.updatePath(stt.Field(i).Type(), sel, path[1:], v))
		} else {
			fs = append(fs, sel)
		}
	}
	return sx("mk_"+string(srt), fs...)
}

func (u *Unit) store(st *State, lv *LV, v Term) {
	if len(lv.path) == 0 {
		u.writeCell(st, lv, v)
		return
	}
	cur := u.readCell(st, lv)
	u.writeCell(st, lv, u.updatePath(lv.cellT, cur, lv.path, v))
}

// ---------------------------------------------------------------------------
// values

func (u *Unit) constTerm(c *ssa.Const) Term {
	t := c.Type()
	if c.Value == nil {
		return u.ty.zero(t)
	}
	switch c.Value.Kind() {
	case constant.Bool:
		if constant.BoolVal(c.Value) {
			return "true"
		}
		return "false"
	case constant.String:
		return u.ty.strConst(constant.StringVal(c.Value))
	case constant.Int:
		if i, ok := constant.Int64Val(c.Value); ok {
			return intLit(i)
		}
		return c.Value.ExactString()
	case constant.Float:
		f, _ := constant.Float64Val(c.Value)
		return fmt.Sprintf("%f", f)
	}
	unsupp("constant %v", c)
	return ""
}

func (u *Unit) val(st *State, v ssa.Value) Term {
	switch x := v.(type) {
	case *ssa.Const:
		return u.constTerm(x)
	case *ssa.Function:
		return intLit(u.eng.funcID(x))
	case *ssa.Global:
		// address of a global used as a value
		unsupp("global address as value: %s", x.Name())
	case *ssa.Builtin:
		unsupp("builtin as value")
	}
	if t, ok := st.regs[v]; ok {
		return t
	}
	if _, ok := st.lvs[v]; ok {
		unsupp("interior pointer %s used as a value in %s", v.Name(), u.curFn.Name())
	}
	if _, ok := st.tups[v]; ok {
		unsupp("tuple used as value")
	}
	unsupp("no value for %s (%T) in %s", v.Name(), v, u.curFn.Name())
	return ""
}

func (u *Unit) lvOf(st *State, v ssa.Value) *LV {
	if lv, ok := st.lvs[v]; ok {
		return lv
	}
	if g, ok := v.(*ssa.Global); ok {
		t := derefNamed(g.Type())
		return &LV{kind: lvGlobal, heap: "G$" + mangle(g.Pkg.Pkg.Path()+"."+g.Name()), sort: u.ty.sortOf(t), cellT: t, ty: t}
	}
	// a whole-object pointer value
	pt, ok := types.Unalias(v.Type()).Underlying().(*types.Pointer)
	if !ok {
		unsupp("lvOf non-pointer %s", v.Type())
	}
	return u.lvForPointer(u.val(st, v), pt.Elem())
}

func (u *Unit) setReg(st *State, v ssa.Value, t Term) {
	st.regs[v] = u.s.define(u.curFn.Name()+"_"+v.Name(), u.ty.sortOf(v.Type()), t)
}

// ---------------------------------------------------------------------------
// obligations

func (u *Unit) oblige(st *State, kind, label, site string, goal Term, pos token.Pos) *Obl {
	if goal == "true" {
		// still count trivially true goals: they are discharged syntactically
	}
	topName := u.top.String()
	if u.con != nil && u.con.Concurrent {
		topName += "[concurrent]"
	}
	name := fmt.Sprintf("%s#%s", topName, kind)
	if label != "" {
		name += "." + label
	}
	if site != "" {
		name += "@" + site
	}
	base := name
	u.siteN[base]++
	if n := u.siteN[base]; n > 1 {
		name = fmt.Sprintf("%s~%d", base, n)
	}
	o := &Obl{Name: name, Kind: kind, Label: label, Func: u.top.String(), nfacts: len(u.s.facts), guard: st.reach, goal: goal, script: u.s, Bound: u.bound, anc: u.curAnc}
	if pos.IsValid() {
		p := u.eng.fset.Position(pos)
		o.Pos = fmt.Sprintf("%s:%d", strings.TrimPrefix(p.Filename, "/repo/"), p.Line)
	}
	u.obls = append(u.obls, o)
	// after checking, the condition may be assumed on this path
	u.s.assume(implies(st.reach, goal))
	return o
}

func (u *Unit) safety(st *State, what string, goal Term, pos token.Pos) {
	if u.s.specMode > 0 {
		return
	}
	if !u.eng.safety {
		u.s.assume(implies(st.reach, goal))
		return
	}
	u.oblige(st, "safety", what, u.siteOf(pos), goal, pos)
}

func (u *Unit) siteOf(pos token.Pos) string {
	if !pos.IsValid() {
		return ""
	}
	// sites are named by enclosing function only; ordinals disambiguate
	return ""
}

// ---------------------------------------------------------------------------
// CFG unrolling / cutting

type loopInfo struct {
	header  *ssa.BasicBlock
	blocks  map[*ssa.BasicBlock]bool
	ordinal int
	spec    *LoopSpec
	bound   int // 0 => invariant mode
	variant Term
	autoFrame []string
	monoEntry map[string]Term
	headerState *State
}

type node struct {
	b     *ssa.BasicBlock
	ctx   string
	cnt   map[*ssa.BasicBlock]int
	preds []*edge
	succs []*edge
	out   *State
	conds []Term // per successor
	cut   *loopInfo
	seen  int
}

type edge struct {
	from, to *node
	succIdx  int
	kind     int // 0 normal, 1 keep (invariant back edge), 2 unwind
	loop     *loopInfo
}

func findLoops(fn *ssa.Function) []*loopInfo {
	byHeader := map[*ssa.BasicBlock]*loopInfo{}
	for _, b := range fn.Blocks {
		for _, s := range b.Succs {
			if s.Dominates(b) { // back edge b->s
				li := byHeader[s]
				if li == nil {
					li = &loopInfo{header: s, blocks: map[*ssa.BasicBlock]bool{s: true}}
					byHeader[s] = li
				}
				// natural loop: nodes reaching b without passing s
				stack := []*ssa.BasicBlock{b}
				for len(stack) > 0 {
					x := stack[len(stack)-1]
					stack = stack[:len(stack)-1]
					if li.blocks[x] {
						continue
					}
					li.blocks[x] = true
					stack = append(stack, x.Preds...)
				}
			}
		}
	}
	var out []*loopInfo
	for _, li := range byHeader {
		out = append(out, li)
	}
	sort.Slice(out, func(i, j int) bool { return out[i].header.Index < out[j].header.Index })
	for i, li := range out {
		li.ordinal = i + 1
	}
	return out
}

func ctxKey(cnt map[*ssa.BasicBlock]int) string {
	var ks []string
	for h, c := range cnt {
		ks = append(ks, fmt.Sprintf("%d:%d", h.Index, c))
	}
	sort.Strings(ks)
	return strings.Join(ks, ",")
}

type graph struct {
	nodes map[string]*node
	order []*node
	entry *node
}

func (u *Unit) buildGraph(fn *ssa.Function, loops []*loopInfo) *graph {
	g := &graph{nodes: map[string]*node{}}
	headerLoop := map[*ssa.BasicBlock]*loopInfo{}
	for _, l := range loops {
		headerLoop[l.header] = l
	}
	var get func(b *ssa.BasicBlock, cnt map[*ssa.BasicBlock]int) *node
	var build func(n *node)
	get = func(b *ssa.BasicBlock, cnt map[*ssa.BasicBlock]int) *node {
		k := fmt.Sprintf("%d|%s", b.Index, ctxKey(cnt))
		if n, ok := g.nodes[k]; ok {
			return n
		}
		n := &node{b: b, ctx: ctxKey(cnt), cnt: cnt}
		g.nodes[k] = n
		if len(g.nodes) > 6000 {
			unsupp("unrolled graph too large in %s", fn.Name())
		}
		build(n)
		return n
	}
	build = func(n *node) {
		for si, s := range n.b.Succs {
			// counters restricted to loops containing s
			cnt := map[*ssa.BasicBlock]int{}
			for h, c := range n.cnt {
				if headerLoop[h].blocks[s] {
					cnt[h] = c
				}
			}
			e := &edge{from: n, succIdx: si}
			if l, isH := headerLoop[s]; isH {
				back := s.Dominates(n.b) && l.blocks[n.b]
				if back {
					if l.bound == 0 {
						e.kind, e.loop = 1, l
						n.succs = append(n.succs, e)
						continue
					}
					c := n.cnt[s] + 1
					if c > l.bound {
						e.kind, e.loop = 2, l
						n.succs = append(n.succs, e)
						continue
					}
					cnt[s] = c
				} else {
					if l.bound > 0 {
						cnt[s] = 0
					}
				}
			}
			to := get(s, cnt)
			e.to = to
			n.succs = append(n.succs, e)
			to.preds = append(to.preds, e)
		}
	}
	g.entry = get(fn.Blocks[0], map[*ssa.BasicBlock]int{})
	for _, n := range g.nodes {
		if l, ok := headerLoop[n.b]; ok && l.bound == 0 {
			n.cut = l
		}
	}
	// topological order (DFS post-order reversed)
	state := map[*node]int{}
	var post []*node
	var dfs func(n *node)
	dfs = func(n *node) {
		state[n] = 1
		for _, e := range n.succs {
			if e.to == nil {
				continue
			}
			switch state[e.to] {
			case 0:
				dfs(e.to)
			case 1:
				unsupp("irreducible control flow in %s", fn.Name())
			}
		}
		state[n] = 2
		post = append(post, n)
	}
	dfs(g.entry)
	for i := len(post) - 1; i >= 0; i-- {
		g.order = append(g.order, post[i])
	}
	return g
}

// ---------------------------------------------------------------------------
// merging

type incoming struct {
	st   *State
	cond Term // full condition (reach of pred && branch)
	e    *edge
}

func (u *Unit) predIndex(e *edge) int {
	p := e.from.b
	b := p.Succs[e.succIdx]
	// occurrence number of b among p.Succs[:succIdx]
	occ := 0
	for i := 0; i < e.succIdx; i++ {
		if p.Succs[i] == b {
			occ++
		}
	}
	for i, q := range b.Preds {
		if q == p {
			if occ == 0 {
				return i
			}
			occ--
		}
	}
	panic("predIndex")
}

func (u *Unit) merge(b *ssa.BasicBlock, ins []incoming, fn *ssa.Function) *State {
	// phi values per incoming edge
	type phiVal struct {
		t  Term
		lv *LV
	}
	phis := []*ssa.Phi{}
	for _, ins := range b.Instrs {
		if p, ok := ins.(*ssa.Phi); ok {
			phis = append(phis, p)
		} else {
			break
		}
	}
	if len(ins) == 1 {
		st := ins[0].st.clone()
		st.reach = ins[0].cond
		if ins[0].e != nil {
			pi := u.predIndex(ins[0].e)
			vals := make([]Term, len(phis))
			for i, p := range phis {
				if lv, ok := ins[0].st.lvs[p.Edges[pi]]; ok {
					st.lvs[p] = lv
					continue
				}
				vals[i] = u.val(ins[0].st, p.Edges[pi])
			}
			for i, p := range phis {
				if vals[i] != "" {
					st.regs[p] = vals[i]
				}
			}
		}
		return st
	}
	st := &State{regs: map[ssa.Value]Term{}, tups: map[ssa.Value][]Term{}, lvs: map[ssa.Value]*LV{}, heaps: map[string]Term{}}
	var conds []Term
	for _, in := range ins {
		conds = append(conds, in.cond)
	}
	st.reach = u.s.define("reach_"+fn.Name()+fmt.Sprint(b.Index), SBool, or(conds...))
	mergeTerms := func(name string, srt Sort, ts []Term) Term {
		same := true
		for _, t := range ts[1:] {
			if t != ts[0] {
				same = false
				break
			}
		}
		if same {
			return ts[0]
		}
		t := ts[len(ts)-1]
		for i := len(ts) - 2; i >= 0; i-- {
			t = ite(conds[i], ts[i], t)
		}
		if u.s.specMode > 0 {
			return t
		}
		c := u.s.fresh(name, srt)
		u.s.assume(eq(c, t))
		return c
	}
	// registers present in all preds
	for v, t0 := range ins[0].st.regs {
		ts := []Term{t0}
		ok := true
		for _, in := range ins[1:] {
			t, has := in.st.regs[v]
			if !has {
				ok = false
				break
			}
			ts = append(ts, t)
		}
		if ok {
			st.regs[v] = mergeTerms(fn.Name()+"_"+v.Name(), u.ty.sortOf(v.Type()), ts)
		}
	}
	for v, t0 := range ins[0].st.tups {
		ok := true
		for _, in := range ins[1:] {
			t, has := in.st.tups[v]
			if !has || strings.Join(t, " ") != strings.Join(t0, " ") {
				ok = false
			}
		}
		if ok {
			st.tups[v] = t0
		}
	}
	for v, lv0 := range ins[0].st.lvs {
		ok := true
		for _, in := range ins[1:] {
			lv, has := in.st.lvs[v]
			if !has || lv != lv0 {
				ok = false
			}
		}
		if ok {
			st.lvs[v] = lv0
		}
	}
	// heaps
	names := map[string]bool{}
	for _, in := range ins {
		for k := range in.st.heaps {
			names[k] = true
		}
	}
	var ns []string
	for k := range names {
		ns = append(ns, k)
	}
	sort.Strings(ns)
	for _, k := range ns {
		var ts []Term
		for _, in := range ins {
			ts = append(ts, u.heap(in.st, k, u.heapSort[k]))
		}
		st.heaps[k] = mergeTerms(k, u.heapSort[k], ts)
	}
	// phis
	for _, p := range phis {
		var ts []Term
		for _, in := range ins {
			pi := u.predIndex(in.e)
			if _, isLV := in.st.lvs[p.Edges[pi]]; isLV {
				unsupp("phi of interior pointers %s", p.Name())
			}
			ts = append(ts, u.val(in.st, p.Edges[pi]))
		}
		st.regs[p] = mergeTerms(fn.Name()+"_"+p.Name(), u.ty.sortOf(p.Type()), ts)
	}
	return st
}

// ---------------------------------------------------------------------------
// executing a function body

type retInfo struct {
	st   *State
	vals []Term
	pos  token.Pos
	blk  int
	node int
}

// execBody runs fn from state st0 with bound parameters; returns merged exit.
func (u *Unit) execBody(fn *ssa.Function, st0 *State, top bool) (*State, []Term) {
	if fn.Blocks == nil {
		unsupp("no body for %s", fn.String())
	}
	savedFn := u.curFn
	u.curFn = fn
	defer func() { u.curFn = savedFn }()
	loops := findLoops(fn)
	var con *Contract
	if top {
		con = u.con
	} else {
		con = u.eng.contractFor(fn)
	}
	for _, l := range loops {
		if con != nil {
			l.spec = con.Loops[l.ordinal]
		}
		// compiler-generated range index: implicit invariant rangeindex >= -1
		if l.spec != nil && !l.spec.autoRange {
			for _, ins := range l.header.Instrs {
				if p, ok := ins.(*ssa.Phi); ok && p.Comment == "rangeindex" {
					cp := *l.spec
					cp.Invariants = append([]Clause{{Label: "autoRangeIndex", Expr: "rangeindex >= -1"}, {Label: "autoRangeUpper", Expr: "@rangeupper"}}, cp.Invariants...)
					cp.autoRange = true
					l.spec = &cp
					con.Loops[l.ordinal] = l.spec
					break
				}
			}
		}
		if l.spec != nil && l.spec.Bound > 0 {
			l.bound = l.spec.Bound
		} else if l.spec == nil || len(l.spec.Invariants) == 0 && !l.spec.Cut {
			if con != nil && con.Bound > 0 {
				l.bound = con.Bound
			} else if u.eng.defaultBound > 0 && top {
				l.bound = u.eng.defaultBound
			} else {
				unsupp("loop %d of %s has neither invariant nor bound", l.ordinal, fn.String())
			}
		}
		if l.bound > 0 && l.bound > u.bound {
			u.bound = l.bound
		}
	}
	g := u.buildGraph(fn, loops)
	var rets []retInfo
	if top {
		// ancestor sets for fact slicing
		u.nodeAnc = map[int]map[int]bool{}
		idx := map[*node]int{}
		for i, n := range g.order {
			idx[n] = i
		}
		for i, n := range g.order {
			a := map[int]bool{i: true}
			for _, e := range n.preds {
				for k := range u.nodeAnc[idx[e.from]] {
					a[k] = true
				}
			}
			u.nodeAnc[i] = a
			n.seen = i
		}
	}
	for _, n := range g.order {
		if top {
			u.s.curTag = n.seen
			u.curAnc = u.nodeAnc[n.seen]
		}
		var ins []incoming
		if n == g.entry && len(n.preds) == 0 {
			ins = []incoming{{st: st0, cond: st0.reach}}
		}
		for _, e := range n.preds {
			if e.from.out == nil || e.from.out.dead {
				continue
			}
			c := and(e.from.out.reach, e.from.conds[e.succIdx])
			if c == "false" {
				continue
			}
			ins = append(ins, incoming{st: e.from.out, cond: c, e: e})
		}
		if len(ins) == 0 {
			continue
		}
		st := u.merge(n.b, ins, fn)
		if n.cut != nil {
			st = u.cutHeader(fn, n, st, top)
		}
		savedActive := u.activeLoops
		for _, l := range loops {
			if l.blocks[n.b] && l.bound == 0 {
				u.activeLoops = append(append([]string{}, u.activeLoops...), loopKey(fn, l.ordinal))
			}
		}
		ret := u.execBlock(fn, n, st)
		if ret != nil {
			rets = append(rets, *ret)
		}
		u.activeLoops = savedActive
		// back edges
		for _, e := range n.succs {
			switch e.kind {
			case 1:
				u.keepEdge(fn, n, e, top)
			case 2:
				c := and(n.out.reach, n.conds[e.succIdx])
				tmp := *n.out
				tmp.reach = c
				u.oblige(&tmp, "unwind", fmt.Sprintf("loop%d.N%d", e.loop.ordinal, e.loop.bound), fn.Name(), "false", n.b.Instrs[len(n.b.Instrs)-1].Pos())
			}
		}
	}
	if len(rets) == 0 {
		dead := st0.clone()
		dead.dead = true
		dead.reach = "false"
		return dead, nil
	}
	if top {
		u.retInfos = rets
	}
	// merge returns
	if len(rets) == 1 {
		return rets[0].st, rets[0].vals
	}
	out := &State{regs: st0.regs, tups: st0.tups, lvs: st0.lvs, heaps: map[string]Term{}}
	var conds []Term
	for _, r := range rets {
		conds = append(conds, r.st.reach)
	}
	if top {
		rc := u.s.fresh("ret_"+fn.Name(), SBool)
		u.s.assumeGlobal(eq(rc, or(conds...)))
		out.reach = rc
	} else {
		out.reach = u.s.define("ret_"+fn.Name(), SBool, or(conds...))
	}
	names := map[string]bool{}
	for _, r := range rets {
		for k := range r.st.heaps {
			names[k] = true
		}
	}
	mergeT := func(name string, srt Sort, ts []Term) Term {
		same := true
		for _, t := range ts[1:] {
			if t != ts[0] {
				same = false
			}
		}
		if same {
			return ts[0]
		}
		t := ts[len(ts)-1]
		for i := len(ts) - 2; i >= 0; i-- {
			t = ite(conds[i], ts[i], t)
		}
		if u.s.specMode > 0 {
			return t
		}
		c := u.s.fresh(name, srt)
		if top {
			u.s.assumeGlobal(eq(c, t)) // the merged exit state is used by the frame obligations of every slice
		} else {
			u.s.assume(eq(c, t))
		}
		return c
	}
	var ns []string
	for k := range names {
		ns = append(ns, k)
	}
	sort.Strings(ns)
	for _, k := range ns {
		var ts []Term
		for _, r := range rets {
			ts = append(ts, u.heap(r.st, k, u.heapSort[k]))
		}
		out.heaps[k] = mergeT(k, u.heapSort[k], ts)
	}
	nres := fn.Signature.Results().Len()
	vals := make([]Term, nres)
	for i := 0; i < nres; i++ {
		var ts []Term
		for _, r := range rets {
			ts = append(ts, r.vals[i])
		}
		vals[i] = mergeT(fn.Name()+"_res", u.ty.sortOf(fn.Signature.Results().At(i).Type()), ts)
	}
	return out, vals
}

func (u *Unit) cutHeader(fn *ssa.Function, n *node, st *State, top bool) *State {
	l := n.cut
	// loop ghosts start at their initial value
	if l.spec != nil {
		for _, g := range l.spec.Ghosts {
			st = st.clone()
			gs := u.ty.sortOf(g.goType(u.eng, fnPkg(fn)))
			if strings.TrimSpace(g.Init) == "any" {
				u.heapSort[loopGhostHeap(fn, l, g.Name)] = gs
				st.heaps[loopGhostHeap(fn, l, g.Name)] = u.s.fresh("lg_"+g.Name, gs)
			} else {
				init := u.evalSpecInt(g.Init, st, fn, l)
				if init == "" { // untyped nil
					init = u.ty.zero(g.goType(u.eng, fnPkg(fn)))
				}
				u.setHeap(st, loopGhostHeap(fn, l, g.Name), gs, init)
			}
		}
	}
	// inv.init (atStart() refers to the entry state itself)
	l.headerState = nil
	if l.spec != nil {
		for _, inv := range l.spec.Invariants {
			if inv.Assumed {
				u.note("assumed at loop %d of %s (input well-formedness, not checked): %s", l.ordinal, fn.Name(), inv.Expr)
				continue
			}
			goal := u.evalSpecBool(inv.Expr, st, fn, l)
			o := u.oblige(st, "inv.init", fmt.Sprintf("loop%d.%s", l.ordinal, inv.Label), fn.Name(), goal, n.b.Instrs[0].Pos())
			o.Props = inv.Props
		}
	}
	// havoc
	out := st.clone()
	for _, ins := range n.b.Instrs {
		p, ok := ins.(*ssa.Phi)
		if !ok {
			break
		}
		c := u.s.fresh(fn.Name()+"_"+p.Name()+"_"+p.Comment, u.ty.sortOf(p.Type()))
		out.regs[p] = c
	}
	oldAlloc := u.alloc(st)
	if l.spec != nil {
		for _, g := range l.spec.Ghosts {
			out.heaps[loopGhostHeap(fn, l, g.Name)] = u.s.fresh("lg_"+g.Name, u.ty.sortOf(g.goType(u.eng, fnPkg(fn))))
		}
	}
	// automatic frame invariants: heaps the unit's contract does not allow to change on
	// pre-existing objects stay unchanged on them throughout the loop
	l.autoFrame = nil
	if !u.pass1 && u.con != nil && u.con.HasFrame {
		var ks []string
		for k := range u.loopMods[loopKey(fn, l.ordinal)] {
			ks = append(ks, k)
		}
		sort.Strings(ks)
		for _, k := range ks {
			rec := u.loopMods[loopKey(fn, l.ordinal)][k]
			if k == "alloc" || strings.HasPrefix(k, "lg$") || strings.HasPrefix(k, "visited$") || strings.HasPrefix(k, "g$") || strings.HasPrefix(k, "G$") {
				continue
			}
			if !strings.HasPrefix(string(rec.sort), "(Array Int ") || (u.coveredByAssigns(k) && len(u.assignRefs[k]) == 0) {
				continue
			}
			l.autoFrame = append(l.autoFrame, k)
			u.heapSort[k] = rec.sort
			goal := u.frameUnchanged(st, k)
			u.oblige(st, "inv.init", fmt.Sprintf("loop%d.frame$%s", l.ordinal, mangle(k)), fn.Name(), goal, n.b.Instrs[0].Pos())
		}
	}
	if !u.pass1 {
		mods := u.loopMods[loopKey(fn, l.ordinal)]
		var ms []string
		for k := range mods {
			ms = append(ms, k)
		}
		sort.Strings(ms)
		for _, k := range ms {
			if k == "alloc" {
				continue
			}
			rec := mods[k]
			old := u.heap(st, k, rec.sort)
			nh := u.s.fresh(k, rec.sort)
			u.heapSort[k] = rec.sort
			out.heaps[k] = nh
			if !rec.nonFresh && strings.HasPrefix(string(rec.sort), "(Array Int ") {
				u.s.assume(implies(out.reach, fmt.Sprintf("(forall ((r Int)) (! (=> (<= r %s) (= (select %s r) (select %s r))) :pattern ((select %s r))))", oldAlloc, nh, old, nh)))
			}
			u.trackWrite(k, rec.sort, "", !rec.nonFresh)
		}
	}
	{
		na := u.s.fresh("alloc", SInt)
		u.heapSort["alloc"] = SInt
		out.heaps["alloc"] = na
		u.s.assume(implies(out.reach, sx(">=", na, oldAlloc)))
		if !u.pass1 {
			for k, rec := range u.loopMods[loopKey(fn, l.ordinal)] {
				if k == "alloc" {
					continue
				}
				if h, ok := out.heaps[k]; ok {
					u.heapWellFormed(k, h, rec.sort, na, out.reach, false)
				}
			}
		}
	}
	for _, ins := range n.b.Instrs {
		p, ok := ins.(*ssa.Phi)
		if !ok {
			break
		}
		u.s.assume(implies(out.reach, u.ty.rangeFact(out.regs[p], p.Type(), u.alloc(out))))
	}
	for _, k := range l.autoFrame {
		u.s.assume(implies(out.reach, u.frameUnchangedPat(out, k)))
	}
	l.headerState = out
	// monotone ghost counters never fall below their value at loop entry (kept: see keepEdge)
	l.monoEntry = map[string]Term{}
	for name := range u.eng.monotone {
		k := "g$" + name
		if cur, ok := out.heaps[k]; ok {
			if old := u.heap(st, k, SInt); old != cur {
				l.monoEntry[k] = old
				u.s.assume(implies(out.reach, sx(">=", cur, old)))
			}
		}
	}
	if l.spec != nil {
		for _, inv := range l.spec.Invariants {
			u.s.assume(implies(out.reach, u.evalSpecBool(inv.Expr, out, fn, l)))
		}
		if l.spec.Decreases != "" {
			l.variant = u.evalSpecInt(l.spec.Decreases, out, fn, l)
		}
	}
	return out
}

func (u *Unit) keepEdge(fn *ssa.Function, n *node, e *edge, top bool) {
	l := e.loop
	if l.spec == nil {
		return
	}
	c := and(n.out.reach, n.conds[e.succIdx])
	if c == "false" {
		return
	}
	tmp := n.out.clone()
	tmp.reach = c
	pi := u.predIndex(e)
	vals := map[*ssa.Phi]Term{}
	for _, ins := range l.header.Instrs {
		p, ok := ins.(*ssa.Phi)
		if !ok {
			break
		}
		vals[p] = u.val(n.out, p.Edges[pi])
	}
	for p, v := range vals {
		tmp.regs[p] = v
	}
	// ghost counters step (evaluated with the pre-step phi values)
	{
		pre := n.out.clone()
		pre.reach = c
		var steps []Term
		for _, g := range l.spec.Ghosts {
			stp := u.evalSpecInt(g.Step, pre, fn, l)
			if stp == "" { // untyped nil
				stp = u.ty.zero(g.goType(u.eng, fnPkg(fn)))
			}
			steps = append(steps, stp)
		}
		for i, g := range l.spec.Ghosts {
			tmp.heaps[loopGhostHeap(fn, l, g.Name)] = u.s.define("lgstep", u.ty.sortOf(g.goType(u.eng, fnPkg(fn))), steps[i])
		}
	}
	for _, k := range l.autoFrame {
		u.oblige(tmp, "inv.keep", fmt.Sprintf("loop%d.frame$%s", l.ordinal, mangle(k)), fn.Name(), u.frameUnchanged(tmp, k), n.b.Instrs[len(n.b.Instrs)-1].Pos())
	}
	{
		var ks []string
		for k := range l.monoEntry {
			ks = append(ks, k)
		}
		sort.Strings(ks)
		for _, k := range ks {
			u.oblige(tmp, "inv.keep", fmt.Sprintf("loop%d.monotone$%s", l.ordinal, mangle(k)), fn.Name(), sx(">=", u.heap(tmp, k, SInt), l.monoEntry[k]), n.b.Instrs[len(n.b.Instrs)-1].Pos())
		}
	}
	for _, inv := range l.spec.Invariants {
		if inv.Assumed {
			continue
		}
		goal := u.evalSpecBool(inv.Expr, tmp, fn, l)
		o := u.oblige(tmp, "inv.keep", fmt.Sprintf("loop%d.%s", l.ordinal, inv.Label), fn.Name(), goal, n.b.Instrs[len(n.b.Instrs)-1].Pos())
		o.Props = inv.Props
	}
	if l.spec.Decreases != "" {
		// variant: evaluated at header (havocked phis) vs here
		if l.variant != "" {
			before := l.variant
			after := u.evalSpecInt(l.spec.Decreases, tmp, fn, l)
			u.oblige(tmp, "decreases", fmt.Sprintf("loop%d", l.ordinal), fn.Name(), and(sx("<", after, before), sx(">=", before, "0")), n.b.Instrs[len(n.b.Instrs)-1].Pos())
		}
	}
}

// frameUnchanged: objects that existed at unit entry are unchanged in heap k.
func (u *Unit) frameExcl(k string) string {
	s := ""
	for _, ref := range u.assignRefs[k] {
		s += " " + not(eq("r", ref))
	}
	return s
}

func (u *Unit) frameUnchanged(st *State, k string) Term {
	cur := u.heap(st, k, u.heapSort[k])
	old := u.heap(u.entry, k, u.heapSort[k])
	if cur == old {
		return "true"
	}
	return fmt.Sprintf("(forall ((r Int)) (=> (and (<= r %s) (>= r 0)%s) (= (select %s r) (select %s r))))", u.alloc(u.entry), u.frameExcl(k), cur, old)
}

func (u *Unit) frameUnchangedPat(st *State, k string) Term {
	cur := u.heap(st, k, u.heapSort[k])
	old := u.heap(u.entry, k, u.heapSort[k])
	if cur == old {
		return "true"
	}
	return fmt.Sprintf("(forall ((r Int)) (! (=> (and (<= r %s) (>= r 0)%s) (= (select %s r) (select %s r))) :pattern ((select %s r))))", u.alloc(u.entry), u.frameExcl(k), cur, old, cur)
}

// coveredByAssigns: the unit's contract lets heap k change on pre-existing objects.
func (u *Unit) coveredByAssigns(k string) bool {
	if u.assignCover == nil {
		u.assignCover = map[string]bool{}
		u.assignRefs = map[string][]Term{}
		whole := map[string]bool{}
		env := u.newEnv(u.entry, u.entry, u.top, u.eng.contractPkg(u.con))
		for _, a := range u.con.Assigns {
			loc := u.parseAssign(env, a)
			if loc.kind == "freshfield" {
				continue
			}
			for _, h := range loc.heap {
				u.assignCover[h] = true
				if (loc.kind == "field" || loc.kind == "elems" || loc.kind == "map") && loc.ref != "" {
					u.assignRefs[h] = append(u.assignRefs[h], loc.ref)
				} else {
					whole[h] = true
				}
			}
		}
		for h := range whole {
			delete(u.assignRefs, h)
		}
	}
	return u.assignCover[k]
}
