package main

// Models of library functions used by the verified bodies.

import (
	"fmt"
	"go/constant"
	"go/types"
	"strings"

	"golang.org/x/tools/go/ssa"
)

func (u *Unit) pureUF(st *State, v ssa.Value, name string, args []Term, argSorts []Sort, res Sort) Term {
	u.s.declFun(name, argSorts, res)
	t := sx(name, args...)
	if v != nil {
		st.regs[v] = u.s.define(name, res, t)
		return st.regs[v]
	}
	return t
}

func constString(v ssa.Value) (string, bool) {
	c, ok := v.(*ssa.Const)
	if !ok || c.Value == nil || c.Value.Kind() != constant.String {
		return "", false
	}
	return constant.StringVal(c.Value), true
}

// libModel returns true if the call was handled.
func (u *Unit) libModel(st *State, v ssa.Value, key string, callee *ssa.Function, c *ssa.CallCommon, instr ssa.Instruction) bool {
	a := func(i int) Term { return u.val(st, c.Args[i]) }
	switch key {
	case "log/slog.Debug", "log/slog.Info", "log/slog.Warn", "log/slog.Error":
		return true
	case "(*sync.RWMutex).Lock", "(*sync.RWMutex).Unlock", "(*sync.RWMutex).RLock", "(*sync.RWMutex).RUnlock", "(*sync.Mutex).Lock", "(*sync.Mutex).Unlock":
		return true
	case "errors.Is":
		st.regs[v] = sx("errIs", a(0), a(1))
		return true
	case "errors.New":
		r := u.s.fresh("errnew", SIfc)
		u.s.assumeGlobal(not(eq(sx("ifc_tag", r), "0")))
		st.regs[v] = r
		return true
	case "errors.Join":
		ops, ok := varargOperands(c.Args[0])
		if !ok {
			unsupp("errors.Join with dynamic operands")
		}
		r := u.s.fresh("errjoin", SIfc)
		var anyNonNil []Term
		var isAny []Term
		for _, op := range ops {
			t := u.val(st, op)
			anyNonNil = append(anyNonNil, not(eq(sx("ifc_tag", t), "0")))
			isAny = append(isAny, and(not(eq(sx("ifc_tag", t), "0")), sx("errIs", t, "t")))
		}
		u.s.assume(implies(st.reach, eq(not(eq(sx("ifc_tag", r), "0")), or(anyNonNil...))))
		u.s.assume(implies(st.reach, fmt.Sprintf("(forall ((t Ifc)) (! (=> (not (= (ifc_tag t) 0)) (= (errIs %s t) (or (= %s t) %s))) :pattern ((errIs %s t))))", r, r, or(isAny...), r)))
		u.s.assume(implies(st.reach, implies(eq(sx("ifc_tag", r), "0"), eq(sx("ifc_pay", r), "0"))))
		st.regs[v] = r
		return true
	case "fmt.Errorf":
		r := u.s.fresh("errorf", SIfc)
		u.s.assumeGlobal(not(eq(sx("ifc_tag", r), "0")))
		format, okf := constString(c.Args[0])
		ops, oko := varargOperands(c.Args[1])
		var wrapped []Term
		if okf && oko {
			vi := 0
			for i := 0; i+1 < len(format); i++ {
				if format[i] != '%' {
					continue
				}
				if format[i+1] == '%' {
					i++
					continue
				}
				j := i + 1
				for j < len(format) && strings.ContainsRune("+-# 0123456789.", rune(format[j])) {
					j++
				}
				if j < len(format) {
					if format[j] == 'w' && vi < len(ops) {
						wrapped = append(wrapped, u.val(st, ops[vi]))
					}
					vi++
				}
				i = j
			}
		} else {
			u.note("fmt.Errorf with non-constant format: wrapped errors unknown")
		}
		var isAny []Term
		for _, w := range wrapped {
			isAny = append(isAny, sx("errIs", w, "t"))
		}
		u.s.assume(implies(st.reach, fmt.Sprintf("(forall ((t Ifc)) (! (=> (not (= (ifc_tag t) 0)) (= (errIs %s t) (or (= %s t) %s))) :pattern ((errIs %s t))))", r, r, or(isAny...), r)))
		// a fresh error value is distinct from every sentinel
		for _, s := range u.sentinels {
			u.s.assumeGlobal(sx("distinct", r, s.name))
		}
		u.freshErrs = append(u.freshErrs, r)
		st.regs[v] = r
		return true
	case "fmt.Sprintf":
		st.regs[v] = u.sprintf(st, c)
		return true
	case "fmt.Sprint", "fmt.Sprintln":
		st.regs[v] = u.s.fresh("sprint", SStr)
		return true
	case "strings.HasPrefix":
		u.pureUF(st, v, "str_hasprefix", []Term{a(0), a(1)}, []Sort{SStr, SStr}, SBool)
		u.prefixFacts()
		return true
	case "strings.HasSuffix":
		u.pureUF(st, v, "str_hassuffix", []Term{a(0), a(1)}, []Sort{SStr, SStr}, SBool)
		return true
	case "strings.Contains":
		u.pureUF(st, v, "str_contains", []Term{a(0), a(1)}, []Sort{SStr, SStr}, SBool)
		return true
	case "strings.TrimSpace":
		u.pureUF(st, v, "str_trimspace", []Term{a(0)}, []Sort{SStr}, SStr)
		return true
	case "strings.TrimPrefix":
		u.pureUF(st, v, "str_trimprefix", []Term{a(0), a(1)}, []Sort{SStr, SStr}, SStr)
		return true
	case "strings.TrimSuffix":
		u.pureUF(st, v, "str_trimsuffix", []Term{a(0), a(1)}, []Sort{SStr, SStr}, SStr)
		return true
	case "strings.ToLower":
		u.pureUF(st, v, "str_tolower", []Term{a(0)}, []Sort{SStr}, SStr)
		return true
	case "strings.Cut":
		u.s.declFun("str_cut_before", []Sort{SStr, SStr}, SStr)
		u.s.declFun("str_cut_after", []Sort{SStr, SStr}, SStr)
		u.s.declFun("str_cut_found", []Sort{SStr, SStr}, SBool)
		st.tups[v] = []Term{sx("str_cut_before", a(0), a(1)), sx("str_cut_after", a(0), a(1)), sx("str_cut_found", a(0), a(1))}
		return true
	case "strings.Split":
		// fresh slice whose elements are split_at(s, sep, i), length split_n >= 1
		u.s.declFun("str_split_n", []Sort{SStr, SStr}, SInt)
		u.s.declFun("str_split_at", []Sort{SStr, SStr, SInt}, SStr)
		s, sep := a(0), a(1)
		r := u.newRef(st, "split")
		hn, hs := u.elemHeap(tString)
		h := u.heap(st, hn, hs)
		content := u.s.fresh("splitparts", arrSort(SInt, SStr))
		u.s.assume(implies(st.reach, fmt.Sprintf("(forall ((i Int)) (! (= (select %s i) (str_split_at %s %s i)) :pattern ((select %s i))))", content, s, sep, content)))
		n := sx("str_split_n", s, sep)
		u.s.assume(implies(st.reach, sx(">=", n, "1")))
		u.setHeapTracked(st, hn, hs, sx("store", h, r, content), r, true)
		u.setReg(st, v, sx("mk_slc", r, "0", n, n))
		return true
	case "strings.Join":
		// join(content-array, off, len, sep)
		u.s.declFun("str_join", []Sort{arrSort(SInt, SStr), SInt, SInt, SStr}, SStr)
		s := a(0)
		hn, hs := u.elemHeap(tString)
		h := u.heap(st, hn, hs)
		u.setReg(st, v, sx("str_join", sx("select", h, sx("slc_arr", s)), sx("slc_off", s), sx("slc_len", s), a(1)))
		return true
	case "encoding/json.Unmarshal":
		// json.Unmarshal(data, &x): x becomes an arbitrary value of its type (A-lib: decoding is not modelled)
		target := unwrapIfc(c.Args[1])
		pt, ok := types.Unalias(target.Type()).Underlying().(*types.Pointer)
		if !ok {
			unsupp("json.Unmarshal into non-pointer")
		}
		lv := u.lvOf(st, target)
		fresh := u.s.fresh("unmarshalled", u.ty.sortOf(pt.Elem()))
		u.s.assume(implies(st.reach, u.ty.rangeFact(fresh, pt.Elem(), u.alloc(st))))
		u.store(st, lv, fresh)
		errv := u.s.fresh("jsonerr", SIfc)
		u.s.assume(implies(st.reach, implies(eq(sx("ifc_tag", errv), "0"), eq(sx("ifc_pay", errv), "0"))))
		for _, sn := range u.sentinels {
			u.s.assumeGlobal(sx("distinct", errv, sn.name))
		}
		st.regs[v] = errv
		u.note("encoding/json.Unmarshal: the decoded value is arbitrary (decoding not modelled)")
		return true
	case "bytes.Equal":
		x, y := a(0), a(1)
		st.regs[v] = u.s.define("beq", SBool, or(eq(x, y), and(eq(sx("blen", x), "0"), eq(sx("blen", y), "0"))))
		return true
	case "encoding/hex.EncodeToString":
		st.regs[v] = sx("hexstr", a(0))
		return true
	case "encoding/hex.DecodeString":
		u.s.declFun("str_validhex", []Sort{SStr}, SBool)
		errv := u.s.fresh("hexerr", SIfc)
		s := a(0)
		u.s.assume(implies(st.reach, eq(eq(sx("ifc_tag", errv), "0"), sx("str_validhex", s))))
		u.s.assume(implies(st.reach, implies(eq(sx("ifc_tag", errv), "0"), eq(sx("ifc_pay", errv), "0"))))
		u.s.assume(implies(st.reach, implies(sx("str_validhex", s), eq(sx("*", "2", sx("blen", sx("unhex", s))), sx("slen", s)))))
		u.s.assumeGlobal(fmt.Sprintf("(forall ((b Bytes)) (! (str_validhex (hexstr b)) :pattern ((hexstr b))))"))
		for _, sn := range u.sentinels {
			u.s.assumeGlobal(sx("distinct", errv, sn.name))
		}
		st.tups[v] = []Term{sx("unhex", s), errv}
		return true
	case "strconv.ParseUint":
		u.s.declFun("str_parseuint_ok", []Sort{SStr}, SBool)
		u.s.declFun("str_parseuint", []Sort{SStr}, SInt)
		u.s.declFun("itoa", []Sort{SInt}, SStr)
		if base, ok := c.Args[1].(*ssa.Const); !ok || base.Int64() != 10 {
			unsupp("ParseUint base")
		}
		errv := u.s.fresh("parseerr", SIfc)
		s := a(0)
		u.s.assume(implies(st.reach, eq(eq(sx("ifc_tag", errv), "0"), sx("str_parseuint_ok", s))))
		u.s.assume(implies(st.reach, implies(eq(sx("ifc_tag", errv), "0"), eq(sx("ifc_pay", errv), "0"))))
		u.s.assume(implies(st.reach, sx(">=", sx("str_parseuint", s), "0")))
		for _, sn := range u.sentinels {
			u.s.assumeGlobal(sx("distinct", errv, sn.name))
		}
		st.tups[v] = []Term{ite(sx("str_parseuint_ok", s), sx("str_parseuint", s), "0"), errv}
		u.note("strconv.ParseUint modelled by uninterpreted (ok, value) functions of the string")
		return true
	}
	return false
}

// sprintf: constant formats with %s / %d / %v of strings and integers become
// concatenations; everything else is an unconstrained string.
func (u *Unit) sprintf(st *State, c *ssa.CallCommon) Term {
	format, okf := constString(c.Args[0])
	ops, oko := varargOperands(c.Args[1])
	if !okf || !oko {
		return u.s.fresh("sprintf", SStr)
	}
	var parts []Term
	lit := strings.Builder{}
	flush := func() {
		if lit.Len() > 0 {
			parts = append(parts, u.ty.strConst(lit.String()))
			lit.Reset()
		}
	}
	vi := 0
	for i := 0; i < len(format); i++ {
		ch := format[i]
		if ch != '%' || i+1 >= len(format) {
			lit.WriteByte(ch)
			continue
		}
		verb := format[i+1]
		if verb == '%' {
			lit.WriteByte('%')
			i++
			continue
		}
		if vi >= len(ops) || !strings.ContainsRune("sdv", rune(verb)) {
			return u.s.fresh("sprintf", SStr)
		}
		op := unwrapIfc(ops[vi])
		vi++
		i++
		flush()
		switch {
		case isString(op.Type()):
			parts = append(parts, u.val(st, op))
		case u.ty.sortOf(op.Type()) == SInt && !isPointerLike(op.Type()):
			u.s.declFun("itoa", []Sort{SInt}, SStr)
			parts = append(parts, sx("itoa", u.val(st, op)))
		case isBytesType(op.Type()) && hasStringMethod(op.Type()):
			// githash.Hash formats through its String method
			parts = append(parts, sx("hexstr", u.val(st, op)))
		default:
			return u.s.fresh("sprintf", SStr)
		}
	}
	flush()
	if len(parts) == 0 {
		return "str_empty"
	}
	t := parts[len(parts)-1]
	for i := len(parts) - 2; i >= 0; i-- {
		t = sx("sconcat", parts[i], t)
	}
	return u.s.define("sprintf", SStr, t)
}

func hasStringMethod(t types.Type) bool {
	n, ok := types.Unalias(t).(*types.Named)
	if !ok {
		return false
	}
	for i := 0; i < n.NumMethods(); i++ {
		if n.Method(i).Name() == "String" {
			return true
		}
	}
	return false
}

// prefixFacts states str_hasprefix on every pair of string constants seen so far.
func (u *Unit) prefixFacts() {
	u.s.declFun("str_hasprefix", []Sort{SStr, SStr}, SBool)
	for a, ta := range u.ty.strs {
		for b, tb := range u.ty.strs {
			key := ta + "|" + tb
			if u.prefixDone[key] {
				continue
			}
			u.prefixDone[key] = true
			if strings.HasPrefix(a, b) {
				u.s.assumeGlobal(sx("str_hasprefix", ta, tb))
			} else {
				u.s.assumeGlobal(not(sx("str_hasprefix", ta, tb)))
			}
		}
	}
}
