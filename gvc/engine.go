package main

// Program loading, contract lookup, closed-world tables, unit driver.

import (
	"fmt"
	"go/token"
	"go/types"
	"os"
	"sort"
	"strings"

	"golang.org/x/tools/go/packages"
	"golang.org/x/tools/go/ssa"
	"golang.org/x/tools/go/ssa/ssautil"
)

type Engine struct {
	root            string
	fset            *token.FileSet
	prog            *ssa.Program
	allPkgs         []*packages.Package
	ssaPkgs         map[string]*ssa.Package
	contracts       map[string]*Contract
	specFuncs       map[string]*SpecFunc
	axioms          []*Axiom
	monotone map[string]bool
	ghosts          map[string]*GhostVar
	contractFiles   []string
	typeCache       map[string]types.Type
	funcIDs         map[*ssa.Function]int64
	funcByKey       map[string]*ssa.Function
	mutableGlobals  map[*ssa.Global]bool
	debugCache      map[*ssa.Function]map[string][]debugVal
	deadCache       map[*ssa.Function]map[ssa.Instruction]bool
	aliasCache      map[string]map[string]*types.Package
	safety          bool
	defaultBound    int
	maxInlineDepth  int
	maxInlineInstrs int
	loadS           float64
}

type debugVal struct {
	v      ssa.Value
	isAddr bool
}

func newEngine(root string) *Engine {
	return &Engine{root: root, contracts: map[string]*Contract{}, specFuncs: map[string]*SpecFunc{}, ghosts: map[string]*GhostVar{}, monotone: map[string]bool{},
		typeCache: map[string]types.Type{}, funcIDs: map[*ssa.Function]int64{}, funcByKey: map[string]*ssa.Function{}, ssaPkgs: map[string]*ssa.Package{},
		mutableGlobals: map[*ssa.Global]bool{}, debugCache: map[*ssa.Function]map[string][]debugVal{}, deadCache: map[*ssa.Function]map[ssa.Instruction]bool{}, aliasCache: map[string]map[string]*types.Package{}, safety: true, maxInlineDepth: 6, maxInlineInstrs: 400}
}

func goEnv() []string {
	if !strings.HasPrefix(os.Getenv("PATH"), "/opt/veriftools/go1.26.8/bin:") {
		os.Setenv("PATH", "/opt/veriftools/go1.26.8/bin:"+os.Getenv("PATH"))
	}
	os.Setenv("GOTOOLCHAIN", "local")
	os.Setenv("GOFLAGS", "-mod=mod")
	os.Setenv("GOPROXY", "off")
	os.Setenv("GOSUMDB", "off")
	return os.Environ()
}

func (eng *Engine) load(patterns []string) error {
	cfg := &packages.Config{
		Mode:       packages.NeedName | packages.NeedFiles | packages.NeedCompiledGoFiles | packages.NeedImports | packages.NeedDeps | packages.NeedTypes | packages.NeedSyntax | packages.NeedTypesInfo | packages.NeedTypesSizes | packages.NeedModule,
		Dir:        eng.root,
		Env:        goEnv(),
		BuildFlags: []string{"-tags=verif"},
	}
	pkgs, err := packages.Load(cfg, patterns...)
	if err != nil {
		return err
	}
	nerr := 0
	packages.Visit(pkgs, nil, func(p *packages.Package) {
		for _, e := range p.Errors {
			if nerr < 10 {
				fmt.Fprintf(os.Stderr, "load error: %v\n", e)
			}
			nerr++
		}
	})
	if nerr > 0 {
		return fmt.Errorf("%d package load errors", nerr)
	}
	prog, _ := ssautil.AllPackages(pkgs, ssa.GlobalDebug|ssa.InstantiateGenerics)
	prog.Build()
	eng.prog = prog
	eng.fset = prog.Fset
	packages.Visit(pkgs, nil, func(p *packages.Package) { eng.allPkgs = append(eng.allPkgs, p) })
	sort.Slice(eng.allPkgs, func(i, j int) bool { return eng.allPkgs[i].PkgPath < eng.allPkgs[j].PkgPath })
	for _, p := range prog.AllPackages() {
		eng.ssaPkgs[p.Pkg.Path()] = p
	}
	// index functions by key and find mutable globals
	for fn := range ssautil.AllFunctions(prog) {
		if fn.Pkg == nil && fn.Origin() == nil && fn.Synthetic == "" {
			continue
		}
		// generic functions: prefer the string instantiation (the one gittuf uses) for verification by key
		if old, ok := eng.funcByKey[calleeKey(fn)]; ok && old != fn {
			if len(fn.TypeArgs()) == 0 && fn.Signature.TypeParams().Len() == 0 && fn.Origin() == nil {
				// plain function: keep
			} else {
				isStr := len(fn.TypeArgs()) > 0
				for _, ta := range fn.TypeArgs() {
					if b, ok := ta.Underlying().(*types.Basic); !ok || b.Kind() != types.String {
						isStr = false
					}
				}
				if !isStr {
					continue
				}
			}
		}
		eng.funcByKey[calleeKey(fn)] = fn
		inInit := fn.Name() == "init" || strings.HasPrefix(fn.Name(), "init#")
		for _, b := range fn.Blocks {
			for _, ins := range b.Instrs {
				if s, ok := ins.(*ssa.Store); ok {
					if g, ok := s.Addr.(*ssa.Global); ok && !inInit {
						eng.mutableGlobals[g] = true
					}
				}
				// address of global escaping (passed around) => mutable
				if c, ok := ins.(ssa.CallInstruction); ok {
					for _, a := range c.Common().Args {
						if g, ok := a.(*ssa.Global); ok {
							eng.mutableGlobals[g] = true
						}
					}
				}
			}
		}
	}
	return nil
}

func (eng *Engine) funcID(f *ssa.Function) int64 {
	if id, ok := eng.funcIDs[f]; ok {
		return id
	}
	id := int64(len(eng.funcIDs) + 1000)
	eng.funcIDs[f] = id
	return id
}

func (eng *Engine) pkgByPath(path string) *types.Package {
	if p, ok := eng.ssaPkgs[path]; ok {
		return p.Pkg
	}
	panic(unsupported{"package not loaded: " + path})
}

// importAliases: per package, the names its files use for imported packages.
func (eng *Engine) importAliases(from *types.Package) map[string]*types.Package {
	if m, ok := eng.aliasCache[from.Path()]; ok {
		return m
	}
	m := map[string]*types.Package{}
	for _, p := range eng.allPkgs {
		if p.PkgPath != from.Path() {
			continue
		}
		for _, f := range p.Syntax {
			for _, imp := range f.Imports {
				path := strings.Trim(imp.Path.Value, "\"")
				ip := p.Imports[path]
				if ip == nil || ip.Types == nil {
					continue
				}
				name := ip.Types.Name()
				if imp.Name != nil {
					name = imp.Name.Name
				}
				m[name] = ip.Types
			}
		}
	}
	eng.aliasCache[from.Path()] = m
	return m
}

func (eng *Engine) pkgByName(name string, from *types.Package) *types.Package {
	if from != nil {
		if p, ok := eng.importAliases(from)[name]; ok {
			return p
		}
	}
	if from != nil {
		for _, imp := range from.Imports() {
			if imp.Name() == name {
				return imp
			}
		}
	}
	var found *types.Package
	for _, p := range eng.allPkgs {
		if p.Types.Name() == name && strings.HasPrefix(p.PkgPath, modulePath) {
			if found != nil && found != p.Types {
				return found
			}
			found = p.Types
		}
	}
	return found
}

func (eng *Engine) globalFor(v *types.Var) *ssa.Global {
	if v.Pkg() == nil {
		return nil
	}
	p := eng.ssaPkgs[v.Pkg().Path()]
	if p == nil {
		return nil
	}
	g, _ := p.Members[v.Name()].(*ssa.Global)
	return g
}

// constGlobal: package-level variables never stored to outside init are
// treated as constants (error sentinels, ZeroHash, ...).
func (eng *Engine) constGlobal(u *Unit, g *ssa.Global) (Term, bool) {
	if eng.mutableGlobals[g] {
		return "", false
	}
	t := derefNamed(g.Type())
	name := "G$" + mangle(g.Pkg.Pkg.Path()+"."+g.Name())
	srt := u.ty.sortOf(t)
	first := !u.s.declared["c:"+name]
	u.s.declConst(name, srt)
	if first {
		u.s.assumeGlobal(u.ty.rangeFact(name, t, ""))
		if types.Identical(t, types.Universe.Lookup("error").Type()) {
			// sentinel errors: non-nil, pairwise distinct leaf errors
			u.s.assumeGlobal(not(eq(sx("ifc_tag", name), "0")))
			u.s.assumeGlobal(fmt.Sprintf("(forall ((t Ifc)) (! (= (errIs %s t) (= t %s)) :pattern ((errIs %s t))))", name, name, name))
			for _, other := range u.sentinels {
				if !u.eng.sameSentinel(other.g, g) {
					u.s.assumeGlobal(sx("distinct", name, other.name))
				} else {
					u.s.assumeGlobal(eq(name, other.name))
				}
			}
			u.sentinels = append(u.sentinels, sentinel{g, name})
		}
	}
	u.note("package-level variable %s.%s is never assigned outside init: treated as a constant", g.Pkg.Pkg.Name(), g.Name())
	return name, true
}

type sentinel struct {
	g    *ssa.Global
	name string
}

// sameSentinel: `var ErrX = otherpkg.ErrX` aliases.
func (eng *Engine) sameSentinel(a, b *ssa.Global) bool {
	return eng.sentinelRoot(a) == eng.sentinelRoot(b)
}

func (eng *Engine) sentinelRoot(g *ssa.Global) *ssa.Global {
	for depth := 0; depth < 5; depth++ {
		init := g.Pkg.Func("init")
		if init == nil {
			return g
		}
		var next *ssa.Global
		for _, b := range init.Blocks {
			for _, ins := range b.Instrs {
				if s, ok := ins.(*ssa.Store); ok && s.Addr == g {
					if ld, ok := s.Val.(*ssa.UnOp); ok {
						if g2, ok := ld.X.(*ssa.Global); ok {
							next = g2
						}
					}
				}
			}
		}
		if next == nil {
			return g
		}
		g = next
	}
	return g
}

func (eng *Engine) contractFor(f *ssa.Function) *Contract {
	return eng.contracts[calleeKey(f)]
}

func (eng *Engine) ifaceMethodKey(t types.Type, m *types.Func) string {
	n, ok := types.Unalias(t).(*types.Named)
	if !ok {
		return "(interface)." + m.Name()
	}
	p := ""
	if n.Obj().Pkg() != nil {
		p = strings.TrimPrefix(n.Obj().Pkg().Path(), modulePath+"/") + "."
	}
	return "(" + p + n.Obj().Name() + ")." + m.Name()
}

func (eng *Engine) implementationsByName(t types.Type, name string) []impl {
	it := t.Underlying().(*types.Interface)
	for i := 0; i < it.NumMethods(); i++ {
		if it.Method(i).Name() == name {
			return eng.implementations(t, it.Method(i))
		}
	}
	return nil
}

// implementations lists module types implementing interface t (closed world).
func (eng *Engine) implementations(t types.Type, m *types.Func) []impl {
	it, ok := t.Underlying().(*types.Interface)
	if !ok {
		return nil
	}
	var out []impl
	for _, T := range eng.moduleNamedTypes() {
		for _, cand := range []types.Type{T, types.NewPointer(T)} {
			if _, isIfc := T.Underlying().(*types.Interface); isIfc {
				continue
			}
			if !types.Implements(cand, it) {
				continue
			}
			ms := eng.prog.MethodSets.MethodSet(cand)
			sel := ms.Lookup(m.Pkg(), m.Name())
			if sel == nil {
				continue
			}
			fn := eng.prog.MethodValue(sel)
			if fn == nil {
				continue
			}
			im := impl{fn: fn, recvT: cand}
			// pointer dynamic type with value-receiver method: go/ssa gives a wrapper taking the pointer
			out = append(out, im)
		}
	}
	sort.Slice(out, func(i, j int) bool { return out[i].fn.String() < out[j].fn.String() })
	return out
}

var namedCache []types.Type

func (eng *Engine) moduleNamedTypes() []types.Type {
	if namedCache != nil {
		return namedCache
	}
	for _, p := range eng.allPkgs {
		if !strings.HasPrefix(p.PkgPath, modulePath) {
			continue
		}
		sc := p.Types.Scope()
		for _, n := range sc.Names() {
			if tn, ok := sc.Lookup(n).(*types.TypeName); ok && !tn.IsAlias() {
				if nt, ok := tn.Type().(*types.Named); ok && nt.TypeParams().Len() == 0 {
					namedCache = append(namedCache, tn.Type())
				}
			}
		}
	}
	return namedCache
}

func (eng *Engine) implementsTerm(u *Unit, tag Term, it *types.Interface, t types.Type) Term {
	var alts []Term
	for _, T := range eng.moduleNamedTypes() {
		for _, cand := range []types.Type{T, types.NewPointer(T)} {
			if _, isIfc := T.Underlying().(*types.Interface); isIfc {
				continue
			}
			if types.Implements(cand, it) {
				alts = append(alts, eq(tag, intLit(u.ty.tagOf(cand))))
			}
		}
	}
	u.note("closed world: type tests against interface %s consider module types only", types.TypeString(t, nil))
	return or(alts...)
}

func (eng *Engine) debugVals(fn *ssa.Function) map[string][]debugVal {
	if m, ok := eng.debugCache[fn]; ok {
		return m
	}
	m := map[string][]debugVal{}
	for _, b := range fn.Blocks {
		for _, ins := range b.Instrs {
			if d, ok := ins.(*ssa.DebugRef); ok {
				if id, ok := d.Expr.(interface{ String() string }); ok {
					_ = id
				}
				name := types.ExprString(d.Expr)
				m[name] = append(m[name], debugVal{d.X, d.IsAddr})
			}
		}
	}
	eng.debugCache[fn] = m
	return m
}

// deadInstrs finds instructions that only feed logging (slog.*) calls: the
// varargs arrays, boxing and Sprintf/String calls that build a debug message.
func (eng *Engine) deadInstrs(fn *ssa.Function) map[ssa.Instruction]bool {
	if d, ok := eng.deadCache[fn]; ok {
		return d
	}
	dead := map[ssa.Instruction]bool{}
	isSink := func(ins ssa.Instruction) bool {
		c, ok := ins.(*ssa.Call)
		if !ok {
			return false
		}
		if f := c.Common().StaticCallee(); f != nil {
			return strings.HasPrefix(f.String(), "log/slog.")
		}
		return false
	}
	pureCall := func(c *ssa.Call) bool {
		f := c.Common().StaticCallee()
		if f == nil {
			return false
		}
		switch calleeKey(f) {
		case "fmt.Sprintf", "fmt.Sprint", "fmt.Sprintln", "(pkg/githash.Hash).String", "strings.Join":
			return true
		}
		return false
	}
	removable := func(ins ssa.Instruction) bool {
		switch x := ins.(type) {
		case *ssa.Alloc, *ssa.MakeInterface, *ssa.Slice, *ssa.Convert, *ssa.ChangeType, *ssa.ChangeInterface:
			return true
		case *ssa.Call:
			return pureCall(x)
		}
		return false
	}
	for _, b := range fn.Blocks {
		for _, ins := range b.Instrs {
			if isSink(ins) {
				dead[ins] = true
			}
		}
	}
	isDbg := func(r ssa.Instruction) bool { _, ok := r.(*ssa.DebugRef); return ok }
	// onlyStoredInto: an interior address that is never read
	var onlyStoredInto func(v ssa.Value) bool
	onlyStoredInto = func(v ssa.Value) bool {
		refs := v.Referrers()
		if refs == nil {
			return false
		}
		for _, r := range *refs {
			if isDbg(r) {
				continue
			}
			if st, ok := r.(*ssa.Store); ok && st.Addr == v {
				continue
			}
			switch x := r.(type) {
			case *ssa.FieldAddr:
				if x.X == v && onlyStoredInto(x) {
					continue
				}
			case *ssa.IndexAddr:
				if x.X == v && onlyStoredInto(x) {
					continue
				}
			}
			return false
		}
		return true
	}
	for changed := true; changed; {
		changed = false
		for _, b := range fn.Blocks {
			for _, ins := range b.Instrs {
				if dead[ins] {
					continue
				}
				switch x := ins.(type) {
				case *ssa.Store:
					if a, ok := x.Addr.(ssa.Instruction); ok && dead[a] {
						dead[ins] = true
						changed = true
					}
					continue
				case *ssa.FieldAddr:
					if a, ok := x.X.(ssa.Instruction); ok && dead[a] {
						dead[ins] = true
						changed = true
					}
					continue
				case *ssa.IndexAddr:
					if a, ok := x.X.(ssa.Instruction); ok && dead[a] {
						dead[ins] = true
						changed = true
					}
					continue
				}
				if !removable(ins) {
					continue
				}
				v := ins.(ssa.Value)
				refs := v.Referrers()
				if refs == nil || len(*refs) == 0 {
					continue
				}
				_, isAlloc := ins.(*ssa.Alloc)
				all := true
				for _, r := range *refs {
					if dead[r] || isDbg(r) {
						continue
					}
					if isAlloc {
						if st, ok := r.(*ssa.Store); ok && st.Addr == v {
							continue
						}
						if fa, ok := r.(*ssa.FieldAddr); ok && fa.X == v && onlyStoredInto(fa) {
							continue
						}
						if ia, ok := r.(*ssa.IndexAddr); ok && ia.X == v && onlyStoredInto(ia) {
							continue
						}
					}
					all = false
					break
				}
				if all {
					dead[ins] = true
					changed = true
				}
			}
		}
	}
	eng.deadCache[fn] = dead
	return dead
}

// pkgReaches: does package from import (transitively) package to?
func (eng *Engine) pkgReaches(from, to string) bool {
	if from == to {
		return true
	}
	seen := map[string]bool{}
	var walk func(p *types.Package) bool
	walk = func(p *types.Package) bool {
		if p.Path() == to {
			return true
		}
		if seen[p.Path()] {
			return false
		}
		seen[p.Path()] = true
		for _, q := range p.Imports() {
			if strings.HasPrefix(q.Path(), modulePath) && walk(q) {
				return true
			}
		}
		return false
	}
	if p, ok := eng.ssaPkgs[from]; ok {
		return walk(p.Pkg)
	}
	return false
}

// fnPkg: the types package a function belongs to (instantiations of generics have no package of their own).
func fnPkg(fn *ssa.Function) *types.Package {
	if fn.Pkg != nil {
		return fn.Pkg.Pkg
	}
	if o := fn.Origin(); o != nil && o.Pkg != nil {
		return o.Pkg.Pkg
	}
	if p := fn.Parent(); p != nil {
		return fnPkg(p)
	}
	return nil
}
