package main

// Counterexample replay against the real code (go test -overlay).

func tryReplay(o *Options, eng *Engine, ob *Obl, rep map[string]any) (bool, string) {
	return false, "no replay harness registered for this obligation"
}

func runReplayFile(o *Options, path string) int {
	return 0
}
