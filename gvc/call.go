package main

// Calls: builtins, library models, contracts, inlining, devirtualisation.

import (
	"fmt"
	"go/constant"
	"go/types"
	"sort"
	"strings"

	"golang.org/x/tools/go/ssa"
)

func (u *Unit) setResults(st *State, v ssa.Value, sig *types.Signature, res []Term) {
	if v == nil {
		return
	}
	n := sig.Results().Len()
	switch {
	case n == 0:
	case n == 1:
		st.regs[v] = u.s.define(u.curFn.Name()+"_"+v.Name(), u.ty.sortOf(sig.Results().At(0).Type()), res[0])
	default:
		out := make([]Term, n)
		for i := range res {
			out[i] = u.s.define(u.curFn.Name()+"_"+v.Name(), u.ty.sortOf(sig.Results().At(i).Type()), res[i])
		}
		st.tups[v] = out
	}
}

func (u *Unit) freshResults(st *State, sig *types.Signature, what string) []Term {
	n := sig.Results().Len()
	out := make([]Term, n)
	for i := 0; i < n; i++ {
		t := sig.Results().At(i).Type()
		out[i] = u.s.fresh("r_"+what, u.ty.sortOf(t))
		u.s.assume(implies(st.reach, u.ty.rangeFact(out[i], t, "")))
	}
	return out
}

func calleeKey(f *ssa.Function) string {
	if o := f.Origin(); o != nil {
		f = o
	}
	s := f.String()
	s = strings.ReplaceAll(s, modulePath+"/", "")
	return s
}

// varargOperands statically recovers the operands packed into a varargs slice.
func varargOperands(v ssa.Value) ([]ssa.Value, bool) {
	if c, ok := v.(*ssa.Const); ok && c.Value == nil {
		return nil, true
	}
	sl, ok := v.(*ssa.Slice)
	if !ok {
		return nil, false
	}
	al, ok := sl.X.(*ssa.Alloc)
	if !ok {
		return nil, false
	}
	at, ok := derefNamed(al.Type()).Underlying().(*types.Array)
	if !ok {
		return nil, false
	}
	out := make([]ssa.Value, at.Len())
	for _, ref := range *al.Referrers() {
		ia, ok := ref.(*ssa.IndexAddr)
		if !ok {
			continue
		}
		c, ok := ia.Index.(*ssa.Const)
		if !ok {
			return nil, false
		}
		i, _ := constant.Int64Val(c.Value)
		for _, r2 := range *ia.Referrers() {
			if s, ok := r2.(*ssa.Store); ok && s.Addr == ia {
				out[i] = s.Val
			}
		}
	}
	for _, o := range out {
		if o == nil {
			return nil, false
		}
	}
	return out, true
}

func unwrapIfc(v ssa.Value) ssa.Value {
	for {
		switch x := v.(type) {
		case *ssa.MakeInterface:
			return x.X
		case *ssa.ChangeInterface:
			v = x.X
		default:
			return v
		}
	}
}

func (u *Unit) call(st *State, v ssa.Value, c *ssa.CallCommon, instr ssa.Instruction) {
	sig := c.Signature()
	if b, ok := c.Value.(*ssa.Builtin); ok {
		u.builtin(st, v, b, c, instr)
		return
	}
	if c.IsInvoke() {
		u.invoke(st, v, c, instr)
		return
	}
	callee := c.StaticCallee()
	if callee == nil {
		u.dynamicCall(st, v, c, instr)
		return
	}
	key := calleeKey(callee)
	if u.libModel(st, v, key, callee, c, instr) {
		u.callAssumesWhen(st, key, true)
		return
	}
	if con := u.eng.contractFor(callee); con != nil && !con.Inline {
		u.callAssumes(st, key)
		args := u.argTVs(st, callee.Signature, c.Args, callee)
		u.callAsserts(st, key, args, instr)
		res := u.applyContract(st, con, args, instr, key)
		u.setResults(st, v, sig, res)
		u.callAssumesRes(st, key, sig, res)
		return
	}
	if u.canInline(callee) {
		res := u.inline(st, callee, c.Args, nil)
		u.setResults(st, v, sig, res)
		return
	}
	// pure external function of value arguments => uninterpreted function
	if !strings.HasPrefix(callee.String(), modulePath) && !strings.Contains(callee.String(), modulePath+"/") {
		if r, ok := u.ufCall(st, key, sig, c.Args); ok {
			u.note("external function %s modelled as an uninterpreted pure function of its arguments", key)
			u.setResults(st, v, sig, r)
			return
		}
		u.note("external function %s: results unconstrained, assumed to write no modelled heap", key)
		u.setResults(st, v, sig, u.freshResults(st, sig, callee.Name()))
		return
	}
	unsupp("call to %s: no contract and not inlinable (%s)", key, u.whyNotInline(callee))
}

func (u *Unit) ufCall(st *State, key string, sig *types.Signature, args []ssa.Value) ([]Term, bool) {
	var sorts []Sort
	var ts []Term
	for _, a := range args {
		if _, isLV := st.lvs[a]; isLV {
			return nil, false
		}
		s := u.ty.sortOf(a.Type())
		switch s {
		case SInt, SBool, SStr, SBytes:
			if isPointerLike(a.Type()) {
				return nil, false
			}
		default:
			return nil, false
		}
		sorts = append(sorts, s)
		ts = append(ts, u.val(st, a))
	}
	n := sig.Results().Len()
	out := make([]Term, n)
	for i := 0; i < n; i++ {
		rt := sig.Results().At(i).Type()
		rs := u.ty.sortOf(rt)
		if isPointerLike(rt) || rs == SSlc {
			return nil, false
		}
		fn := fmt.Sprintf("uf$%s$%d", mangle(key), i)
		u.s.declFun(fn, sorts, rs)
		out[i] = sx(fn, ts...)
		u.s.assume(implies(st.reach, u.ty.rangeFact(out[i], rt, "")))
	}
	return out, true
}

func (u *Unit) argTVs(st *State, sig *types.Signature, args []ssa.Value, callee *ssa.Function) []TV {
	var out []TV
	for i, a := range args {
		var t types.Type
		if callee != nil && i < len(callee.Params) {
			t = callee.Params[i].Type()
		} else {
			t = a.Type()
		}
		if lv, ok := st.lvs[a]; ok {
			out = append(out, TV{Ty: t, LV: lv})
			continue
		}
		out = append(out, TV{T: u.val(st, a), Ty: t})
	}
	return out
}

// ---------------------------------------------------------------------------

func (u *Unit) whyNotInline(f *ssa.Function) string {
	if f.Blocks == nil {
		return "no body"
	}
	if !strings.Contains(f.String(), modulePath) {
		return "external function"
	}
	for _, s := range u.stack {
		if s == f {
			return "recursive"
		}
	}
	if len(u.stack) >= u.eng.maxInlineDepth {
		return "inline depth"
	}
	if len(findLoops(f)) > 0 {
		if con := u.eng.contractFor(f); con == nil || len(con.Loops) == 0 {
			return "has loops without loop contracts"
		}
	}
	n := 0
	for _, b := range f.Blocks {
		n += len(b.Instrs)
	}
	if n > u.eng.maxInlineInstrs {
		return fmt.Sprintf("too large (%d instrs)", n)
	}
	return ""
}

func (u *Unit) canInline(f *ssa.Function) bool { return u.whyNotInline(f) == "" }

func (u *Unit) inline(st *State, f *ssa.Function, args []ssa.Value, freeVars []Term) []Term {
	in := &State{reach: st.reach, regs: map[ssa.Value]Term{}, tups: map[ssa.Value][]Term{}, lvs: map[ssa.Value]*LV{}, heaps: st.heaps}
	for i, p := range f.Params {
		if lv, ok := st.lvs[args[i]]; ok {
			in.lvs[p] = lv
			continue
		}
		in.regs[p] = u.val(st, args[i])
	}
	for i, fv := range f.FreeVars {
		if i < len(freeVars) {
			in.regs[fv] = freeVars[i]
		}
	}
	u.stack = append(u.stack, f)
	out, res := u.execBody(f, in, false)
	u.stack = u.stack[:len(u.stack)-1]
	if out.dead {
		// callee never returns on this path
		st.reach = "false"
		st.dead = true
		n := f.Signature.Results().Len()
		res = make([]Term, n)
		for i := range res {
			res[i] = u.ty.zero(f.Signature.Results().At(i).Type())
		}
		return res
	}
	st.heaps = out.heaps
	// paths on which the callee panicked/looped are gone from reach
	st.reach = out.reach
	return res
}

func (u *Unit) dynamicCall(st *State, v ssa.Value, c *ssa.CallCommon, instr ssa.Instruction) {
	sig := c.Signature()
	// closure created in this unit?
	if t, ok := st.regs[c.Value]; ok {
		if mc, ok := u.closures[t]; ok {
			f := mc.Fn.(*ssa.Function)
			if u.canInline(f) {
				var fvs []Term
				for _, b := range mc.Bindings {
					fvs = append(fvs, u.val(st, b))
				}
				res := u.inline(st, f, c.Args, fvs)
				u.setResults(st, v, sig, res)
				return
			}
		}
	}
	// unknown function value: havoc the objects its pointer arguments designate
	for _, a := range c.Args {
		pt, ok := a.Type().Underlying().(*types.Pointer)
		if !ok {
			continue
		}
		if _, isStruct := pt.Elem().Underlying().(*types.Struct); !isStruct {
			unsupp("dynamic call with pointer to non-struct")
		}
		lv := u.lvOf(st, a)
		fresh := u.s.fresh("dyn_"+typeKey(pt.Elem()), u.ty.sortOf(pt.Elem()))
		u.s.assume(implies(st.reach, u.ty.rangeFact(fresh, pt.Elem(), u.alloc(st))))
		u.store(st, lv, fresh)
	}
	u.note("calls through function values (functional options) may only write the objects their pointer arguments designate")
	u.setResults(st, v, sig, u.freshResults(st, sig, "dyn"))
}

// ---------------------------------------------------------------------------
// interface method calls

func (u *Unit) invoke(st *State, v ssa.Value, c *ssa.CallCommon, instr ssa.Instruction) {
	recv := u.val(st, c.Value)
	sig := c.Signature()
	u.safety(st, "nilinvoke", not(eq(sx("ifc_tag", recv), "0")), instr.Pos())
	key := u.eng.ifaceMethodKey(c.Value.Type(), c.Method)
	if key == "(error).Error" {
		u.s.declFun("errmsg", []Sort{SIfc}, SStr)
		u.setResults(st, v, sig, []Term{sx("errmsg", recv)})
		return
	}
	if con := u.eng.contracts[key]; con != nil {
		u.callAssumes(st, key)
		args := []TV{{T: recv, Ty: c.Value.Type()}}
		args = append(args, u.argTVs(st, sig, c.Args, nil)...)
		res := u.applyContract(st, con, args, instr, key)
		u.setResults(st, v, sig, res)
		u.callAssumesRes(st, key, sig, res)
		return
	}
	// devirtualise over the implementations known to the program
	impls := u.eng.implementations(c.Value.Type(), c.Method)
	if len(impls) == 0 {
		unsupp("invoke %s: no contract and no known implementation", key)
	}
	u.note("closed world: interface %s is implemented only by the types of the loaded program", types.TypeString(c.Value.Type(), nil))
	type branch struct {
		cond Term
		res  []Term
		st   *State
	}
	var brs []branch
	tag := sx("ifc_tag", recv)
	for _, im := range impls {
		if !u.canInline(im.fn) {
			if con := u.eng.contractFor(im.fn); con == nil {
				unsupp("invoke %s: implementation %s neither inlinable (%s) nor under contract", key, im.fn.String(), u.whyNotInline(im.fn))
			}
		}
		cond := eq(tag, intLit(u.ty.tagOf(im.recvT)))
		bst := st.clone()
		bst.reach = and(st.reach, cond)
		rv := u.ty.fromIfc(im.recvT, recv)
		// the wrapper/pointer receiver adjustments
		var res []Term
		tmpArg := &ssa.Parameter{}
		_ = tmpArg
		res = u.callImpl(bst, im, rv, c.Args, st, instr)
		brs = append(brs, branch{cond: cond, res: res, st: bst})
	}
	// merge: results by ite on tag; heaps by ite
	n := sig.Results().Len()
	out := make([]Term, n)
	for i := 0; i < n; i++ {
		t := brs[len(brs)-1].res[i]
		for j := len(brs) - 2; j >= 0; j-- {
			t = ite(brs[j].cond, brs[j].res[i], t)
		}
		out[i] = t
	}
	names := map[string]bool{}
	for _, b := range brs {
		for k := range b.st.heaps {
			names[k] = true
		}
	}
	var ns []string
	for k := range names {
		ns = append(ns, k)
	}
	sort.Strings(ns)
	for _, k := range ns {
		var ts []Term
		same := true
		for _, b := range brs {
			ts = append(ts, u.heap(b.st, k, u.heapSort[k]))
			if ts[len(ts)-1] != ts[0] {
				same = false
			}
		}
		if same {
			st.heaps[k] = ts[0]
			continue
		}
		t := ts[len(ts)-1]
		for j := len(brs) - 2; j >= 0; j-- {
			t = ite(brs[j].cond, ts[j], t)
		}
		c := u.s.fresh(k, u.heapSort[k])
		u.s.assume(eq(c, t))
		st.heaps[k] = c
	}
	u.setResults(st, v, sig, out)
}

type impl struct {
	fn    *ssa.Function
	recvT types.Type // dynamic type stored in the interface
	deref bool       // method has value receiver but dynamic type is pointer
}

func (u *Unit) callImpl(bst *State, im impl, recvVal Term, args []ssa.Value, outer *State, instr ssa.Instruction) []Term {
	f := im.fn
	// bind receiver + args as pseudo values
	rv := recvVal
	if im.deref {
		// load the struct value the pointer designates
		lv := u.lvForPointer(recvVal, derefNamed(im.recvT))
		rv = u.load(bst, lv)
	}
	if con := u.eng.contractFor(f); con != nil && !con.Inline {
		tvs := []TV{{T: rv, Ty: f.Params[0].Type()}}
		tvs = append(tvs, u.argTVs(outer, f.Signature, args, nil)...)
		return u.applyContract(bst, con, tvs, instr, calleeKey(f))
	}
	in := &State{reach: bst.reach, regs: map[ssa.Value]Term{}, tups: map[ssa.Value][]Term{}, lvs: map[ssa.Value]*LV{}, heaps: bst.heaps}
	in.regs[f.Params[0]] = rv
	for i, a := range args {
		in.regs[f.Params[i+1]] = u.val(outer, a)
	}
	u.stack = append(u.stack, f)
	out, res := u.execBody(f, in, false)
	u.stack = u.stack[:len(u.stack)-1]
	if out.dead {
		n := f.Signature.Results().Len()
		res = make([]Term, n)
		for i := range res {
			res[i] = u.ty.zero(f.Signature.Results().At(i).Type())
		}
		return res
	}
	bst.heaps = out.heaps
	return res
}

// ---------------------------------------------------------------------------
// builtins

func (u *Unit) builtin(st *State, v ssa.Value, b *ssa.Builtin, c *ssa.CallCommon, instr ssa.Instruction) {
	switch b.Name() {
	case "len", "cap":
		a := c.Args[0]
		av := u.val(st, a)
		var r Term
		switch {
		case isBytesType(a.Type()):
			r = sx("blen", av)
		case isString(a.Type()):
			r = sx("slen", av)
		default:
			switch t := a.Type().Underlying().(type) {
			case *types.Slice:
				if b.Name() == "len" {
					r = sx("slc_len", av)
				} else {
					r = sx("slc_cap", av)
				}
			case *types.Map:
				r = u.mapLen(st, a.Type(), av)
			case *types.Array:
				r = intLit(t.Len())
			case *types.Pointer:
				r = intLit(t.Elem().Underlying().(*types.Array).Len())
			default:
				unsupp("len of %s", a.Type())
			}
		}
		st.regs[v] = r
	case "append":
		u.appendOp(st, v, c, instr)
	case "delete":
		m, k := u.val(st, c.Args[0]), u.val(st, c.Args[1])
		dn, ds, _, _ := u.mapHeaps(c.Args[0].Type())
		dh := u.heap(st, dn, ds)
		u.setHeapTracked(st, dn, ds, ite(eq(m, "0"), dh, sx("store", dh, m, sx("store", sx("select", dh, m), k, "false"))), m, false)
	case "ssa:wrapnilchk":
		p := u.val(st, c.Args[0])
		u.safety(st, "nilderef", not(eq(p, "0")), instr.Pos())
		st.regs[v] = p
	case "print", "println":
	case "min", "max":
		a, bb := u.val(st, c.Args[0]), u.val(st, c.Args[1])
		if len(c.Args) != 2 {
			unsupp("min/max arity")
		}
		if b.Name() == "min" {
			st.regs[v] = ite(sx("<=", a, bb), a, bb)
		} else {
			st.regs[v] = ite(sx(">=", a, bb), a, bb)
		}
	default:
		unsupp("builtin %s", b.Name())
	}
}

func (u *Unit) mapLen(st *State, mt types.Type, m Term) Term {
	dn, ds, _, _ := u.mapHeaps(mt)
	ks := u.ty.sortOf(mt.Underlying().(*types.Map).Key())
	fn := "mapcard$" + mangle(string(ks))
	if !u.s.declared["c:"+fn] {
		u.s.declFun(fn, []Sort{arrSort(ks, SBool)}, SInt)
		u.s.assumeGlobal(fmt.Sprintf("(forall ((d %s)) (! (>= (%s d) 0) :pattern ((%s d))))", arrSort(ks, SBool), fn, fn))
		u.s.assumeGlobal(fmt.Sprintf("(= (%s ((as const %s) false)) 0)", fn, arrSort(ks, SBool)))
		u.s.assumeGlobal(fmt.Sprintf("(forall ((d %s) (k %s)) (! (=> (select d k) (> (%s d) 0)) :pattern ((%s d) (select d k))))", arrSort(ks, SBool), ks, fn, fn))
		u.s.assumeGlobal(fmt.Sprintf("(forall ((d %s) (k %s)) (! (= (%s (store d k true)) (+ (%s d) (ite (select d k) 0 1))) :pattern ((%s (store d k true)))))", arrSort(ks, SBool), ks, fn, fn, fn))
		u.s.assumeGlobal(fmt.Sprintf("(forall ((d %s) (k %s)) (! (= (%s (store d k false)) (- (%s d) (ite (select d k) 1 0))) :pattern ((%s (store d k false)))))", arrSort(ks, SBool), ks, fn, fn, fn))
	}
	return ite(eq(m, "0"), "0", sx(fn, sx("select", u.heap(st, dn, ds), m)))
}

func (u *Unit) appendOp(st *State, v ssa.Value, c *ssa.CallCommon, instr ssa.Instruction) {
	a, b := c.Args[0], c.Args[1]
	if isBytesType(a.Type()) {
		u.s.declFun("bappend", []Sort{SBytes, SBytes}, SBytes)
		var bv Term
		if isString(b.Type()) {
			bv = sx("s2b", u.val(st, b))
		} else {
			bv = u.val(st, b)
		}
		r := sx("bappend", u.val(st, a), bv)
		st.regs[v] = u.s.define("bappend", SBytes, r)
		u.s.assume(eq(sx("blen", st.regs[v]), sx("+", sx("blen", u.val(st, a)), sx("blen", bv))))
		return
	}
	et := a.Type().Underlying().(*types.Slice).Elem()
	hn, hs := u.elemHeap(et)
	s, e := u.val(st, a), u.val(st, b)
	h := u.heap(st, hn, hs)
	r := u.newRef(st, "append")
	es := u.ty.sortOf(et)
	content := u.s.fresh("appended", arrSort(SInt, es))
	ls, le := sx("slc_len", s), sx("slc_len", e)
	// A-slice: copy-on-append (the result never aliases the argument)
	u.s.assume(implies(st.reach, fmt.Sprintf("(forall ((i Int)) (! (=> (and (<= 0 i) (< i %s)) (= (select %s i) (select (select %s %s) (ix %s i)))) :pattern ((select %s i))))",
		ls, content, h, sx("slc_arr", s), sx("slc_off", s), content)))
	// appended elements: if statically known operands, state them pointwise
	if ops, ok := varargOperands(b); ok && len(ops) <= 8 {
		for i, op := range ops {
			u.s.assume(implies(st.reach, eq(sx("select", content, sx("+", ls, intLit(int64(i)))), u.val(st, op))))
		}
	} else {
		u.s.assume(implies(st.reach, fmt.Sprintf("(forall ((j Int)) (! (=> (and (<= 0 j) (< j %s)) (= (select %s (+ %s j)) (select (select %s %s) (ix %s j)))) :pattern ((select (select %s %s) (ix %s j)))))",
			le, content, ls, h, sx("slc_arr", e), sx("slc_off", e), h, sx("slc_arr", e), sx("slc_off", e))))
		u.s.assume(implies(st.reach, fmt.Sprintf("(forall ((i Int)) (! (=> (and (<= %s i) (< i (+ %s %s))) (= (select %s i) (select (select %s %s) (ix %s (- i %s))))) :pattern ((select %s i))))",
			ls, ls, le, content, h, sx("slc_arr", e), sx("slc_off", e), ls, content)))
	}
	u.setHeapTracked(st, hn, hs, sx("store", h, r, content), r, true)
	nl := u.s.define("applen", SInt, sx("+", ls, le))
	cp := u.s.fresh("appcap", SInt)
	u.s.assume(implies(st.reach, sx(">=", cp, nl)))
	u.setReg(st, v, sx("mk_slc", r, "0", nl, cp))
	u.note("A-slice: append is modelled as copy-on-append (the result never aliases its argument)")
}

// callAssumes: facts about external input the unit's contract assumes just before calls to a callee.
func (u *Unit) callAssumes(st *State, key string) {
	u.interfere(st)
	u.callAssumesWhen(st, key, false)
}

// interfere: in a "concurrent" contract other writers may act between any two calls of the function: the ghosts
// named by `interferes` are havocked and the `rely` clauses assumed (old() = the state before their step).
func (u *Unit) interfere(st *State) {
	if u.con == nil || !u.con.Concurrent || u.curFn != u.top || u.s.specMode > 0 {
		return
	}
	pre := st.clone()
	for _, name := range u.con.Interferes {
		g, ok := u.eng.ghosts[name]
		if !ok {
			specErr("interferes: unknown ghost %s", name)
		}
		t := u.eng.resolveTypeString(g.Type, u.eng.pkgByPath(g.PkgPath))
		hn := "g$" + name
		u.heapSort[hn] = u.ty.sortOf(t)
		st.heaps[hn] = u.s.fresh(hn, u.ty.sortOf(t))
		u.trackWrite(hn, u.ty.sortOf(t), "", false)
	}
	env := u.newEnv(st, pre, u.top, u.eng.contractPkg(u.con))
	for _, r := range u.con.Rely {
		u.s.assume(implies(st.reach, env.evalBool(r.Expr)))
	}
	u.note("interference model of %s: other writers act only between its calls (callees are atomic), changing %v subject to its rely clauses", u.con.Key, u.con.Interferes)
}

// callAssumesRes: "assumeafter" facts may name the call's results r0, r1, ...
func (u *Unit) callAssumesRes(st *State, key string, sig *types.Signature, res []Term) {
	u.afterRes, u.afterSig = res, sig
	u.callAssumesWhen(st, key, true)
	u.afterRes, u.afterSig = nil, nil
}

func (u *Unit) callAssumesWhen(st *State, key string, after bool) {
	if u.con == nil || u.curFn != u.top || u.s.specMode > 0 {
		return
	}
	for _, ca := range u.con.CallAssumes {
		if !strings.Contains(key, ca.Callee) || ca.After != after {
			continue
		}
		env := u.newEnv(st, u.entry, u.top, u.eng.contractPkg(u.con))
		for i, r := range u.afterRes {
			env.vars[fmt.Sprintf("r%d", i)] = TV{T: r, Ty: u.afterSig.Results().At(i).Type()}
		}
		u.s.assume(implies(st.reach, env.evalBool(ca.Clause.Expr)))
		u.note("assumed before calls to %s in %s (input well-formedness, not checked): %s", ca.Callee, u.con.Key, ca.Clause.Expr)
	}
}

// callAsserts: obligations the unit's contract places on calls to a callee (wherever they occur, also in inlined code).
func (u *Unit) callAsserts(st *State, key string, args []TV, instr ssa.Instruction) {
	if u.con == nil || u.s.specMode > 0 {
		return
	}
	for _, ca := range u.con.CallAsserts {
		if !strings.Contains(key, ca.Callee) {
			continue
		}
		env := u.newEnv(st, u.entry, u.top, u.eng.contractPkg(u.con))
		for i, a := range args {
			env.vars[fmt.Sprintf("a%d", i)] = a
		}
		o := u.oblige(st, "callassert", ca.Clause.Label, "", env.evalBool(ca.Clause.Expr), instr.Pos())
		o.Props = ca.Clause.Props
	}
}
