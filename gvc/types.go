package main

// Mapping of Go types to SMT sorts, zero values, range facts, heap names.

import (
	"fmt"
	"go/types"
	"strings"
)

type Sort string

const (
	SInt   Sort = "Int"
	SBool  Sort = "Bool"
	SStr   Sort = "Str"
	SBytes Sort = "Bytes"
	SSlc   Sort = "Slc"
	SIfc   Sort = "Ifc"
)

const modulePath = "github.com/gittuf/gittuf"

const basePrelude = `(declare-sort Str 0)
(declare-sort Bytes 0)
(declare-datatypes ((Slc 0)) (((mk_slc (slc_arr Int) (slc_off Int) (slc_len Int) (slc_cap Int)))))
(declare-datatypes ((Ifc 0)) (((mk_ifc (ifc_tag Int) (ifc_pay Int)))))
(declare-fun slen (Str) Int)
(declare-fun isPtrTag (Int) Bool)
(declare-fun ix (Int Int) Int)
(declare-fun blen (Bytes) Int)
(declare-fun bnil () Bytes)
(declare-fun str_empty () Str)
(declare-fun sconcat (Str Str) Str)
(declare-fun b2s (Bytes) Str)
(declare-fun s2b (Str) Bytes)
(declare-fun errIs (Ifc Ifc) Bool)
(declare-fun hexstr (Bytes) Str)
(declare-fun unhex (Str) Bytes)
`

// ixShiftFact: re-slicing s[1:] (queues): element i of the tail is element i+1 of the original - names the shifted
// term so that quantified facts about the original slice instantiate. Opt-in per contract (`uses ixshift`): it slows
// model-based quantifier instantiation down on proofs that do not need it.
const ixShiftFact = "(forall ((o Int) (i Int)) (! (= (ix (+ o 1) i) (ix o (+ i 1))) :pattern ((ix (+ o 1) i))))"

var basePreludeFacts = []string{
	"(forall ((o Int) (i Int)) (! (= (ix o i) (+ o i)) :pattern ((ix o i))))",
	"(= (blen bnil) 0)",
	"(= (slen str_empty) 0)",
	"(forall ((s Str)) (! (>= (slen s) 0) :pattern ((slen s))))",
	"(forall ((b Bytes)) (! (>= (blen b) 0) :pattern ((blen b))))",
	"(forall ((s Str)) (! (= (b2s (s2b s)) s) :pattern ((s2b s))))",
	"(forall ((s Str)) (! (= (blen (s2b s)) (slen s)) :pattern ((s2b s))))",
	"(forall ((b Bytes)) (! (= (slen (b2s b)) (blen b)) :pattern ((b2s b))))",
	// hex encoding is injective and doubles the length
	"(forall ((b Bytes)) (! (= (unhex (hexstr b)) b) :pattern ((hexstr b))))",
	"(forall ((b Bytes)) (! (= (slen (hexstr b)) (* 2 (blen b))) :pattern ((hexstr b))))",
	// errors.Is is reflexive on non-nil errors; nothing "is" when err is nil
	"(forall ((e Ifc)) (! (=> (not (= (ifc_tag e) 0)) (errIs e e)) :pattern ((errIs e e))))",
	"(forall ((e Ifc) (t Ifc)) (! (=> (= (ifc_tag e) 0) (= (errIs e t) (= (ifc_tag t) 0))) :pattern ((errIs e t))))",
}

func isBytesType(t types.Type) bool {
	if s, ok := t.Underlying().(*types.Slice); ok {
		if b, ok := s.Elem().Underlying().(*types.Basic); ok && (b.Kind() == types.Byte || b.Kind() == types.Uint8) {
			return true
		}
	}
	return false
}

func typeKey(t types.Type) string {
	return mangle(types.TypeString(t, func(p *types.Package) string {
		path := p.Path()
		if strings.HasPrefix(path, modulePath+"/") {
			return strings.TrimPrefix(path, modulePath+"/")
		}
		return path
	}))
}

func inModule(t types.Type) bool {
	if n, ok := types.Unalias(t).(*types.Named); ok {
		if n.Obj().Pkg() == nil {
			return false
		}
		p := n.Obj().Pkg().Path()
		return p == modulePath || strings.HasPrefix(p, modulePath+"/")
	}
	return true // unnamed types are structural
}

type Types struct {
	s        *Script
	structs  map[string]*types.Struct
	tags     map[string]int64
	tagTypes map[int64]types.Type
	strs     map[string]Term
	boxes    map[string]bool
	opaque   map[string]bool
}

func newTypes(s *Script) *Types {
	return &Types{s: s, structs: map[string]*types.Struct{}, tags: map[string]int64{}, tagTypes: map[int64]types.Type{}, strs: map[string]Term{}, boxes: map[string]bool{}, opaque: map[string]bool{}}
}

type unsupported struct{ msg string }

func unsupp(format string, a ...any) { panic(unsupported{fmt.Sprintf(format, a...)}) }

var pseudoTypes = map[string]types.Type{}

// pseudoType wraps a raw SMT sort as a Go type so that specification values of
// that sort can flow through the typed evaluator.
func pseudoType(sort string) types.Type {
	sort = strings.TrimSpace(sort)
	switch sort {
	case "Int":
		return types.Typ[types.Int]
	case "Bool":
		return types.Typ[types.Bool]
	case "Str":
		return types.Typ[types.String]
	case "Bytes":
		return types.NewSlice(types.Typ[types.Byte])
	case "Ifc":
		return types.NewInterfaceType(nil, nil)
	}
	if t, ok := pseudoTypes[sort]; ok {
		return t
	}
	t := types.NewNamed(types.NewTypeName(0, nil, "smt:"+sort, nil), types.NewStruct(nil, nil), nil)
	pseudoTypes[sort] = t
	return t
}

func pseudoSort(t types.Type) (string, bool) {
	if n, ok := types.Unalias(t).(*types.Named); ok && strings.HasPrefix(n.Obj().Name(), "smt:") {
		return strings.TrimPrefix(n.Obj().Name(), "smt:"), true
	}
	return "", false
}

// arraySorts splits "(Array K V)" into K and V.
func arraySorts(s string) (string, string, bool) {
	s = strings.TrimSpace(s)
	if !strings.HasPrefix(s, "(Array ") || !strings.HasSuffix(s, ")") {
		return "", "", false
	}
	inner := strings.TrimSpace(s[len("(Array ") : len(s)-1])
	depth := 0
	for i := 0; i < len(inner); i++ {
		switch inner[i] {
		case '(':
			depth++
		case ')':
			depth--
		case ' ':
			if depth == 0 {
				return inner[:i], strings.TrimSpace(inner[i+1:]), true
			}
		}
	}
	return "", "", false
}

func (ty *Types) sortOf(t types.Type) Sort {
	t = types.Unalias(t)
	if ps, ok := pseudoSort(t); ok {
		return Sort(ps)
	}
	if isBytesType(t) {
		return SBytes
	}
	switch u := t.Underlying().(type) {
	case *types.Basic:
		switch {
		case u.Info()&types.IsBoolean != 0:
			return SBool
		case u.Info()&types.IsInteger != 0:
			return SInt
		case u.Info()&types.IsString != 0:
			return SStr
		case u.Kind() == types.UnsafePointer || u.Kind() == types.UntypedNil:
			return SInt
		case u.Info()&types.IsFloat != 0:
			return "Real"
		}
		unsupp("basic type %s", t)
	case *types.Pointer, *types.Map, *types.Chan, *types.Signature:
		return SInt
	case *types.Slice:
		return SSlc
	case *types.Interface:
		return SIfc
	case *types.Struct:
		return ty.structSort(t, u)
	case *types.Array:
		return Sort(fmt.Sprintf("(Array Int %s)", ty.sortOf(u.Elem())))
	case *types.TypeParam:
		unsupp("type parameter %s", t)
	case *types.Tuple:
		unsupp("tuple sort")
	}
	unsupp("type %s", t)
	return ""
}

func (ty *Types) structSort(t types.Type, st *types.Struct) Sort {
	key := typeKey(t)
	name := Sort("S_" + key)
	if _, ok := ty.structs[key]; ok {
		return name
	}
	ty.structs[key] = st
	opaque := st.NumFields() == 0 || strings.HasPrefix(key, "sync.") || strings.HasPrefix(key, "sync_atomic")
	var fs []string
	if !opaque {
		func() {
			defer func() {
				if r := recover(); r != nil {
					if _, ok := r.(unsupported); ok {
						opaque = true
						return
					}
					panic(r)
				}
			}()
			for i := 0; i < st.NumFields(); i++ {
				f := st.Field(i)
				fs = append(fs, fmt.Sprintf("(%s %s)", ty.selName(name, f.Name()), ty.sortOf(f.Type())))
			}
		}()
	}
	if opaque {
		ty.opaque[key] = true
		ty.s.declareRaw("sort:"+string(name), fmt.Sprintf("(declare-sort %s 0)", name))
		ty.s.declConst("zero_"+string(name), name)
		return name
	}
	ty.s.declareRaw("sort:"+string(name), fmt.Sprintf("(declare-datatypes ((%s 0)) (((mk_%s %s))))", name, name, strings.Join(fs, " ")))
	return name
}

func (ty *Types) isOpaqueStruct(t types.Type) bool {
	st, ok := t.Underlying().(*types.Struct)
	if !ok {
		return false
	}
	ty.structSort(t, st)
	return ty.opaque[typeKey(t)]
}

func (ty *Types) selName(structSort Sort, field string) string {
	return string(structSort) + "$" + mangle(field)
}

func (ty *Types) zero(t types.Type) Term {
	t = types.Unalias(t)
	if isBytesType(t) {
		return "bnil"
	}
	switch u := t.Underlying().(type) {
	case *types.Basic:
		switch {
		case u.Info()&types.IsBoolean != 0:
			return "false"
		case u.Info()&types.IsInteger != 0:
			return "0"
		case u.Info()&types.IsString != 0:
			return "str_empty"
		case u.Info()&types.IsFloat != 0:
			return "0.0"
		}
		return "0"
	case *types.Pointer, *types.Map, *types.Chan, *types.Signature:
		return "0"
	case *types.Slice:
		return "(mk_slc 0 0 0 0)"
	case *types.Interface:
		return "(mk_ifc 0 0)"
	case *types.Struct:
		srt := ty.structSort(t, u)
		if ty.isOpaqueStruct(t) {
			return "zero_" + string(srt)
		}
		var fs []string
		for i := 0; i < u.NumFields(); i++ {
			fs = append(fs, ty.zero(u.Field(i).Type()))
		}
		return sx("mk_"+string(srt), fs...)
	case *types.Array:
		return ty.constArray(SInt, ty.sortOf(u.Elem()), ty.zero(u.Elem()))
	}
	unsupp("zero of %s", t)
	return ""
}

// rangeFact returns the typing invariant of a value of Go type t.
func (ty *Types) rangeFact(v Term, t types.Type, alloc Term) Term {
	t = types.Unalias(t)
	if _, ok := pseudoSort(t); ok {
		return "true"
	}
	if isBytesType(t) {
		return "true"
	}
	switch u := t.Underlying().(type) {
	case *types.Basic:
		if u.Info()&types.IsUnsigned != 0 {
			return sx(">=", v, "0")
		}
		return "true"
	case *types.Pointer, *types.Map, *types.Chan:
		if alloc == "" {
			return sx(">=", v, "0")
		}
		return and(sx(">=", v, "0"), sx("<=", v, alloc))
	case *types.Slice:
		a, o, l, c := sx("slc_arr", v), sx("slc_off", v), sx("slc_len", v), sx("slc_cap", v)
		f := and(sx(">=", a, "0"), sx(">=", o, "0"), sx(">=", l, "0"), sx(">=", c, l),
			implies(eq(a, "0"), and(eq(l, "0"), eq(c, "0"), eq(o, "0"))))
		if alloc != "" {
			f = and(f, sx("<=", a, alloc))
		}
		return f
	case *types.Interface:
		tg, p := sx("ifc_tag", v), sx("ifc_pay", v)
		f := and(sx(">=", tg, "0"), implies(eq(tg, "0"), eq(p, "0")))
		if alloc != "" {
			f = and(f, implies(sx("isPtrTag", tg), and(sx(">=", p, "0"), sx("<=", p, alloc))))
		}
		return f
	case *types.Struct:
		if ty.isOpaqueStruct(t) {
			return "true"
		}
		srt := ty.structSort(t, u)
		var fs []Term
		for i := 0; i < u.NumFields(); i++ {
			f := u.Field(i)
			fs = append(fs, ty.rangeFact(sx(ty.selName(srt, f.Name()), v), f.Type(), alloc))
		}
		return and(fs...)
	}
	return "true"
}

func (ty *Types) tagOf(t types.Type) int64 {
	k := types.TypeString(types.Unalias(t), nil)
	if id, ok := ty.tags[k]; ok {
		return id
	}
	id := int64(len(ty.tags) + 1)
	ty.tags[k] = id
	ty.tagTypes[id] = t
	if isPointerLike(t) {
		ty.s.assumeGlobal(sx("isPtrTag", intLit(id)))
	} else {
		ty.s.assumeGlobal(not(sx("isPtrTag", intLit(id))))
	}
	return id
}

func (ty *Types) strConst(v string) Term {
	if v == "" {
		return "str_empty"
	}
	if c, ok := ty.strs[v]; ok {
		return c
	}
	name := fmt.Sprintf("str$%d$%s", len(ty.strs), mangle(trunc(v, 24)))
	ty.s.declConst(name, SStr)
	ty.s.assumeGlobal(eq(sx("slen", name), intLit(int64(len(v)))))
	for _, other := range ty.strs {
		ty.s.assumeGlobal(sx("distinct", name, other))
	}
	ty.strs[v] = name
	if ty.s.declared["c:str_hasprefix"] {
		for o, to := range ty.strs {
			if strings.HasPrefix(v, o) {
				ty.s.assumeGlobal(sx("str_hasprefix", name, to))
			} else {
				ty.s.assumeGlobal(not(sx("str_hasprefix", name, to)))
			}
			if o != v {
				if strings.HasPrefix(o, v) {
					ty.s.assumeGlobal(sx("str_hasprefix", to, name))
				} else {
					ty.s.assumeGlobal(not(sx("str_hasprefix", to, name)))
				}
			}
		}
	}
	return name
}

func trunc(s string, n int) string {
	if len(s) > n {
		return s[:n]
	}
	return s
}

// box/unbox for non-pointer payloads of interfaces
func (ty *Types) box(t types.Type, v Term) Term {
	srt := ty.sortOf(t)
	k := typeKey(t)
	bn, un := "box$"+k, "unbox$"+k
	if !ty.boxes[k] {
		ty.boxes[k] = true
		ty.s.declFun(bn, []Sort{srt}, SInt)
		ty.s.declFun(un, []Sort{SInt}, srt)
		ty.s.assumeGlobal(fmt.Sprintf("(forall ((x %s)) (! (= (%s (%s x)) x) :pattern ((%s x))))", srt, un, bn, bn))
		ty.s.assumeGlobal(fmt.Sprintf("(forall ((x %s)) (! (> (%s x) 0) :pattern ((%s x))))", srt, bn, bn))
	}
	return sx(bn, v)
}

func (ty *Types) unbox(t types.Type, p Term) Term {
	ty.box(t, ty.zero(t)) // ensure declared
	return sx("unbox$"+typeKey(t), p)
}

// isRefLike: values that are references to allocated objects (function values are not: they are function ids or
// negative closure ids)
func isRefLike(t types.Type) bool {
	switch t.Underlying().(type) {
	case *types.Pointer, *types.Map, *types.Chan:
		return true
	}
	return false
}

func isPointerLike(t types.Type) bool {
	switch t.Underlying().(type) {
	case *types.Pointer, *types.Map, *types.Chan, *types.Signature:
		return true
	}
	return false
}

// ifcPayload converts a concrete value into an interface payload.
func (ty *Types) mkIfc(t types.Type, v Term) Term {
	if _, isIfc := t.Underlying().(*types.Interface); isIfc {
		return v
	}
	tag := intLit(ty.tagOf(t))
	if isPointerLike(t) {
		return sx("mk_ifc", tag, v)
	}
	return sx("mk_ifc", tag, ty.box(t, v))
}

func (ty *Types) fromIfc(t types.Type, i Term) Term {
	if isPointerLike(t) {
		return sx("ifc_pay", i)
	}
	return ty.unbox(t, sx("ifc_pay", i))
}

// constArray: an array that is `zero` everywhere. cvc5 only accepts literal
// values under (as const ...), so other element sorts get a named array with
// a pointwise axiom.
func (ty *Types) constArray(idx, elem Sort, zero Term) Term {
	srt := arrSort(idx, elem)
	literal := elem == SInt || elem == SBool
	if literal {
		return fmt.Sprintf("((as const %s) %s)", srt, zero)
	}
	name := "carr$" + mangle(string(srt))
	if !ty.s.declared["c:"+name] {
		ty.s.declConst(name, srt)
		ty.s.assumeGlobal(fmt.Sprintf("(forall ((i %s)) (! (= (select %s i) %s) :pattern ((select %s i))))", idx, name, zero, name))
	}
	return name
}
