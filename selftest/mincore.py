#!/usr/bin/env python3
# usage: mincore.py file.smt2  -- greedy minimization of an unsat query (debug aid)
import sys,subprocess
f=sys.argv[1]
L=open(f).read().split('\n')
idx=[i for i,l in enumerate(L) if l.startswith('(assert')]
keep=set(idx)
def run(keep):
    s='\n'.join(l for i,l in enumerate(L) if (i not in idx) or i in keep)
    s=s.replace('(get-model)','')
    open('/tmp/min.smt2','w').write(s)
    for cmd in (['cvc5','--full-saturate-quant','--tlimit=4000','/tmp/min.smt2'],['z3-new','smt.mbqi=false','smt.auto_config=false','-T:4','/tmp/min.smt2']):
        try:
            r=subprocess.run(cmd,capture_output=True,text=True,timeout=6).stdout.split('\n')[0]
        except Exception as e:
            r='timeout'
        if r=='unsat': return r
    return r
print(run(keep),file=sys.stderr)
chunk=32
while chunk>=1:
    ids=sorted(keep)
    for k in range(0,len(ids),chunk):
        c=set(ids[k:k+chunk])
        if not c: continue
        if run(keep-c)=='unsat': keep=keep-c
    chunk//=2
for i in sorted(keep): print(L[i][:int(sys.argv[2]) if len(sys.argv)>2 else 700]); print()
