#!/bin/bash
# Must-fail corpus: every line "<patch> <PROP> [gvc args]" must be reported as a violation by ./check <PROP>
# (run on a scratch copy of /repo by mutant.sh). Exit 1 if any member is missed.
cd "$(dirname "$0")/.."
rc=0
while read f p args; do
  [ -z "$f" ] && continue
  case "$f" in \#*) continue;; esac
  r=$(./selftest/mutant.sh "$f" "$p" $args 2>&1 | tail -1)
  echo "$r"
  case "$r" in CAUGHT*) ;; *) rc=1;; esac
done <<'LIST'
selftest/mutants/C04_parent_nobranch.patch C04
selftest/mutants/C04_parent_numberrule.patch C04
selftest/mutants/C08_floor_offbyone.patch C08
selftest/mutants/C09_v02_no_from.patch C09
selftest/mutants/C10_no_z_quoted_paths.patch C10
selftest/mutants/C11_tag_threshold_on_cached_verifier.patch C11
selftest/mutants/C12_first_apply_no_rollback.patch C12
selftest/mutants/C15_skip_needs_two_annotations.patch C15
selftest/mutants/C18_uptodate_check_whole_tree.patch C18
selftest/mutants/C20_debug_not_nil.patch C20
selftest/mutants/C20_nonnumber_zero.patch C20
seeded/C04a/patch.diff C04
seeded/C04b/patch.diff C04
seeded/C05a/patch.diff C05
seeded/C05b/patch.diff C05
seeded/C06a/patch.diff C06
seeded/C06b/patch.diff C06
seeded/C09a/patch.diff C09
seeded/C09b/patch.diff C09
seeded/C11a/patch.diff C11
seeded/C11b/patch.diff C11
seeded/C12a/patch.diff C12
seeded/C12b/patch.diff C12
seeded/C13a/patch.diff C13
seeded/C13b/patch.diff C13
seeded/C14a/patch.diff C14
seeded/C14b/patch.diff C14
seeded/C16a/patch.diff C16
seeded/C16b/patch.diff C16
seeded/C19a/patch.diff C19
seeded/C19b/patch.diff C19
seeded/C20a/patch.diff C20
seeded/C20b/patch.diff C20
LIST
exit $rc
