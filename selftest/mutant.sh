#!/bin/bash
# usage: mutant.sh <patch-file> <PROP> [extra gvc args]
# Applies the patch to a scratch copy of /repo (outside /repo and /verif), runs the check there, removes the copy.
# Exit 0 if the check reported a violation (mutant caught), 1 if it was missed.
patch=$(readlink -f $1); prop=$2; shift 2
d=$(mktemp -d /tmp/gvc-mut-XXXXXX)
cp -r /repo $d/repo
mkdir -p $d/verif
cp /verif/known_findings.json $d/verif/ 2>/dev/null
if ! (cd $d/repo && git apply --whitespace=nowarn $patch 2>/dev/null || patch -p1 -s < $patch); then echo "PATCH-FAILED $patch"; rm -rf $d; exit 2; fi
out=$(/verif/bin/gvc check $prop --root $d/repo --verif $d/verif --no-replay "$@" 2>&1)
rc=$?
echo "$out" | grep -E "^(VIOLATION|KNOWN-FINDING)|GENERATE-FAIL|VACUOUS" | sed "s#$d/verif/replays/##" | head -8
echo "$out" | tail -1
rm -rf $d
if [ $rc -eq 1 ]; then echo "CAUGHT $prop $(basename $patch)"; exit 0; else echo "MISSED $prop $(basename $patch)"; exit 1; fi
