#!/bin/bash
# usage: confirm_seed.sh <seed-dir (contains patch.diff, demo test, meta.json)> <dest /verif/seeded/ID>
# Confirms in a scratch copy: patch applies & builds, demo fails with it and passes without it,
# the existing tests of the demo package pass with it. Then stores the seed under /verif/seeded.
src=$1; dest=$2
export PATH=/opt/veriftools/go1.26.8/bin:$PATH GOTOOLCHAIN=local GOFLAGS=-mod=mod GOPROXY=off GOSUMDB=off
meta=$src/meta.json
pkg=$(python3 -c "import json;print(json.load(open('$meta'))['demo_pkg'])")
demo=$(ls $src/zz_seed_*_test.go | head -1)
tname=$(grep -o "func TestSeed[A-Za-z0-9_]*" $demo | head -1 | sed 's/func //')
d=$(mktemp -d /tmp/seedconf-XXXXXX)
git -C /repo archive ${SEED_BASE:-HEAD} | tar -x -C $d   # base the seed was written against (contract files removed below)
find $d -name 'zz_contracts_verif.go' -delete
cd $d
log=$d/confirm.log
cp $demo $pkg/
r_clean=$(go test -vet=off -count=1 -timeout 60m -run "^$tname\$" $pkg 2>&1 | tail -3 | tr '\n' ' ')
git apply --whitespace=nowarn $src/patch.diff 2>>$log || patch -p1 -s < $src/patch.diff
b=$(go build ./... 2>&1 | tail -3)
r_mut=$(go test -vet=off -count=1 -timeout 60m -run "^$tname\$" $pkg 2>&1 | tail -3 | tr '\n' ' ')
r_exist=$(GOMAXPROCS=4 nice -n 10 go test -p 1 -vet=off -count=1 -timeout 180m -skip "^TestSeed" $pkg 2>&1 | tail -3 | tr '\n' ' ')
ok=0
case "$r_clean" in ok*) ;; *) ok=1;; esac
case "$r_mut" in *FAIL*) ;; *) ok=1;; esac
case "$r_exist" in ok*) ;; *) ok=1;; esac
[ -n "$b" ] && ok=1
mkdir -p $dest
cp $src/patch.diff $demo $dest/
python3 - "$meta" "$dest/meta.json" "$r_clean" "$r_mut" "$r_exist" "$b" "$ok" "$(git -C /repo rev-parse --short ${SEED_BASE:-HEAD})" <<'PY'
import json,sys
m=json.load(open(sys.argv[1]))
m['confirmed_by_me']={'demo_on_clean_tree':sys.argv[3],'demo_with_patch':sys.argv[4],'existing_tests_of_demo_pkg_with_patch':sys.argv[5],'build_with_patch':sys.argv[6] or 'ok','all_confirmed':sys.argv[7]=='0','base_commit':sys.argv[8]}
json.dump(m,open(sys.argv[2],'w'),indent=1)
PY
cd /; rm -rf $d
echo "$(basename $dest): clean=[$r_clean] mut=[$r_mut] exist=[$r_exist] confirmed=$([ $ok = 0 ] && echo yes || echo NO)"
