#!/bin/bash
# usage: mkscratch.sh <dir>   -- scratch copy of /repo HEAD without the verif contract files, as its own git repo
d=$1
rm -rf $d; mkdir -p $d
git -C /repo archive HEAD | tar -x -C $d
find $d -name 'zz_contracts_verif.go' -delete
cd $d && git init -q . && git add -A >/dev/null && git -c user.name=s -c user.email=s@x commit -q -m base && echo "ready $d"
