// Replay of obligation PropagateChangesFromUpstreamRepository#inv.keep.loop1.idempotentStep (C18): with a directive
// that names an upstream PATH, repeating the propagation when the downstream path already holds exactly that
// upstream subtree still creates a new commit and a new propagation entry, every time.
package propagation

import (
	"testing"

	"github.com/gittuf/gittuf/internal/tuf"
	tufv01 "github.com/gittuf/gittuf/internal/tuf/v01"
	"github.com/gittuf/gittuf/pkg/gitinterface"
	"github.com/gittuf/gittuf/pkg/rsl"
)

func TestReplayD11(t *testing.T) {
	upstreamLocation := t.TempDir()
	upstream := gitinterface.CreateTestGitRepository(t, upstreamLocation, true)
	downstream := gitinterface.CreateTestGitRepository(t, t.TempDir(), true)

	blob, err := upstream.WriteBlob([]byte("a"))
	if err != nil {
		t.Fatal(err)
	}
	upTree, err := gitinterface.NewTreeBuilder(upstream).WriteTreeFromEntries([]gitinterface.TreeEntry{
		gitinterface.NewEntryBlob("sub/a", blob),
		gitinterface.NewEntryBlob("other/b", blob),
	})
	if err != nil {
		t.Fatal(err)
	}
	upCommit, err := upstream.Commit(upTree, "refs/heads/main", "Initial commit\n", false)
	if err != nil {
		t.Fatal(err)
	}
	if err := rsl.NewReferenceEntry("refs/heads/main", upCommit).Commit(upstream, false); err != nil {
		t.Fatal(err)
	}

	dblob, err := downstream.WriteBlob([]byte("x"))
	if err != nil {
		t.Fatal(err)
	}
	downTree, err := gitinterface.NewTreeBuilder(downstream).WriteTreeFromEntries([]gitinterface.TreeEntry{gitinterface.NewEntryBlob("x", dblob)})
	if err != nil {
		t.Fatal(err)
	}
	downCommit, err := downstream.Commit(downTree, "refs/heads/main", "Initial commit\n", false)
	if err != nil {
		t.Fatal(err)
	}
	if err := rsl.NewReferenceEntry("refs/heads/main", downCommit).Commit(downstream, false); err != nil {
		t.Fatal(err)
	}

	directive := &tufv01.PropagationDirective{
		UpstreamReference:   "refs/heads/main",
		UpstreamRepository:  upstreamLocation,
		UpstreamPath:        "sub",
		DownstreamReference: "refs/heads/main",
		DownstreamPath:      "vendor",
	}
	if err := PropagateChangesFromUpstreamRepository(downstream, upstream, []tuf.PropagationDirective{directive}, false); err != nil {
		t.Fatal(err)
	}
	first, err := rsl.GetLatestEntry(downstream)
	if err != nil {
		t.Fatal(err)
	}
	tip1, _ := downstream.GetReference("refs/heads/main")

	// nothing changed upstream: repeating must be a no-op
	if err := PropagateChangesFromUpstreamRepository(downstream, upstream, []tuf.PropagationDirective{directive}, false); err != nil {
		t.Fatal(err)
	}
	second, err := rsl.GetLatestEntry(downstream)
	if err != nil {
		t.Fatal(err)
	}
	tip2, _ := downstream.GetReference("refs/heads/main")
	t.Logf("entry numbers: %d then %d; branch tip %s then %s", first.GetNumber(), second.GetNumber(), tip1.String(), tip2.String())
	if !first.GetID().Equal(second.GetID()) || !tip1.Equal(tip2) {
		t.Errorf("REPLAYED: repeating the propagation of an unchanged upstream path created a new commit / log entry")
	}
}
