// Replay of obligation (*ReferenceEntry).Commit#post.numberFollowsParentUnderInterference (C17):
// writer B records an entry between writer A's read of the log tip (to compute its number) and A's
// commit. Both succeed; the log then holds two entries with the same number and cannot be walked.
package rsl_test

import (
	"testing"

	"github.com/gittuf/gittuf/pkg/githash"
	"github.com/gittuf/gittuf/pkg/gitinterface"
	"github.com/gittuf/gittuf/pkg/gitstore"
	"github.com/gittuf/gittuf/pkg/rsl"
)

// interleavingStorer runs another writer's complete recording operation just before A's first Commit.
type interleavingStorer struct {
	gitstore.Storer
	other func()
	done  bool
}

func (s *interleavingStorer) Commit(treeID githash.Hash, targetRef, message string, sign bool) (githash.Hash, error) {
	if !s.done {
		s.done = true
		s.other()
	}
	return s.Storer.Commit(treeID, targetRef, message, sign)
}

func TestReplayD10(t *testing.T) {
	tmpDir := t.TempDir()
	repo := gitinterface.CreateTestGitRepository(t, tmpDir, false)
	if err := rsl.NewReferenceEntry("refs/heads/main", gitinterface.ZeroHash).Commit(repo, false); err != nil {
		t.Fatal(err)
	}
	var errB error
	a := &interleavingStorer{Storer: repo, other: func() {
		errB = rsl.NewReferenceEntry("refs/heads/feature", gitinterface.ZeroHash).Commit(repo, false)
	}}
	errA := rsl.NewReferenceEntry("refs/heads/main", gitinterface.ZeroHash).Commit(a, false)
	rsl.ResetCacheForReplay()
	latest, lerr := rsl.GetLatestEntry(repo)
	if lerr != nil {
		t.Fatal(lerr)
	}
	parent, perr := rsl.GetParentForEntry(repo, latest)
	var pn uint64
	if parent != nil {
		pn = parent.GetNumber()
	}
	t.Logf("A err=%v, B err=%v; tip number=%d; parent number=%d; walking to parent: %v", errA, errB, latest.GetNumber(), pn, perr)
	if errA == nil && errB == nil && perr != nil {
		t.Errorf("REPLAYED: both writers reported success, but the log cannot be walked from its tip (tip number %d): %v", latest.GetNumber(), perr)
	}
}
