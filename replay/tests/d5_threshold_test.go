// Replay of obligation verifyGitObjectAndAttestations#frame.H$...SignatureVerifier$threshold (C05/C08):
// verifying a tag sets threshold = 1 on the verifier objects cached in the policy state, so a later
// verification with the same state judges a threshold-2 rule with threshold 1.
package policy

import (
	"testing"

	"github.com/gittuf/gittuf/internal/signerverifier/gpg"
	"github.com/gittuf/gittuf/internal/tuf"
	tufv01 "github.com/gittuf/gittuf/internal/tuf/v01"
	"github.com/gittuf/gittuf/pkg/gitinterface"
)

func TestReplayD5(t *testing.T) {
	repo := gitinterface.CreateTestGitRepository(t, t.TempDir(), false)
	treeBuilder := gitinterface.NewTreeBuilder(repo)
	emptyTreeID, err := treeBuilder.WriteTreeFromEntries(nil)
	if err != nil {
		t.Fatal(err)
	}
	goodID, err := repo.CommitUsingSpecificKey(emptyTreeID, "refs/heads/main", "good\n", gpgKeyBytes)
	if err != nil {
		t.Fatal(err)
	}
	otherID, err := repo.CommitUsingSpecificKey(emptyTreeID, "refs/heads/other", "other\n", gpgUnauthorizedKeyBytes)
	if err != nil {
		t.Fatal(err)
	}
	gpgKeyR, err := gpg.LoadGPGKeyFromBytes(gpgPubKeyBytes)
	if err != nil {
		t.Fatal(err)
	}
	trusted := tufv01.NewKeyFromSSLibKey(gpgKeyR)
	ruleA := &SignatureVerifier{repository: repo, name: "rule-a", principals: []tuf.Principal{trusted}, threshold: 1}
	ruleB := &SignatureVerifier{repository: repo, name: "rule-b", principals: []tuf.Principal{trusted}, threshold: 2}
	target := "git:refs/tags/v1"
	state := &State{repository: repo, verifiersCache: map[string][]*SignatureVerifier{target: {ruleA, ruleB}}}
	_, _, verr := verifyGitObjectAndAttestations(testCtx, state, target, goodID, nil, withTagObjectID(otherID))
	after, _ := state.FindVerifiersForPath(target)
	t.Logf("tag verification returned %v; cached rule-b threshold is now %d", verr, after[1].Threshold())
	if after[1].Threshold() != 2 {
		t.Errorf("REPLAYED: verification changed the cached verifier of rule-b from threshold 2 to %d", after[1].Threshold())
	}
}
