// Replay of obligation (*ReferenceEntry).setEntryNumber#post.faultReported (C16/C03):
// a single failing GetCommitMessage while recording makes the operation succeed
// with number 1 on top of an existing tip.
package rsl_test

import (
	"errors"
	"testing"

	"github.com/gittuf/gittuf/internal/gitstoretest"
	"github.com/gittuf/gittuf/pkg/gitinterface"
	"github.com/gittuf/gittuf/pkg/rsl"
)

func TestReplayD21(t *testing.T) {
	tmpDir := t.TempDir()
	repo := gitinterface.CreateTestGitRepository(t, tmpDir, false)
	if err := rsl.NewReferenceEntry("refs/heads/main", gitinterface.ZeroHash).Commit(repo, false); err != nil {
		t.Fatal(err)
	}
	if err := rsl.NewReferenceEntry("refs/heads/main", gitinterface.ZeroHash).Commit(repo, false); err != nil {
		t.Fatal(err)
	}
	rsl.ResetCacheForReplay()
	fake := &gitstoretest.FakeStorer{Storer: repo, GetCommitMessageErr: errors.New("injected storage fault")}
	err := rsl.NewReferenceEntry("refs/heads/main", gitinterface.ZeroHash).Commit(fake, false)
	rsl.ResetCacheForReplay()
	latest, lerr := rsl.GetLatestEntry(repo)
	if lerr != nil {
		t.Fatal(lerr)
	}
	_, perr := rsl.GetParentForEntry(repo, latest)
	t.Logf("Commit under fault returned err=%v; tip number=%d; walking to parent: %v", err, latest.GetNumber(), perr)
	if err == nil {
		t.Errorf("REPLAYED: storage fault not reported; entry recorded with number %d after tip number 2; chain walk error: %v", latest.GetNumber(), perr)
	}
}
