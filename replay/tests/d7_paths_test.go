// Replay of obligation (*Repository).GetFilePathsChangedByCommit#post.verbatimPaths (C10): a changed file whose
// name contains a non-ASCII character, a quote, or a backslash is reported in git's C-quoted form instead of verbatim,
// so a file rule written for the real name does not see it.
package gitinterface

import (
	"testing"
)

func TestReplayD7(t *testing.T) {
	tmpDir := t.TempDir()
	repo := CreateTestGitRepository(t, tmpDir, false)
	treeBuilder := NewTreeBuilder(repo)
	emptyBlobID, err := repo.WriteBlob(nil)
	if err != nil {
		t.Fatal(err)
	}
	first, err := treeBuilder.WriteTreeFromEntries([]TreeEntry{NewEntryBlob("plain.txt", emptyBlobID)})
	if err != nil {
		t.Fatal(err)
	}
	c1, err := repo.Commit(first, "refs/heads/main", "one\n", false)
	if err != nil {
		t.Fatal(err)
	}
	_ = c1
	names := []string{"café.txt", "with \"quote\".txt", "back\\slash.txt", "tab\there.txt"}
	entries := []TreeEntry{NewEntryBlob("plain.txt", emptyBlobID)}
	for _, n := range names {
		entries = append(entries, NewEntryBlob(n, emptyBlobID))
	}
	second, err := treeBuilder.WriteTreeFromEntries(entries)
	if err != nil {
		t.Fatal(err)
	}
	c2, err := repo.Commit(second, "refs/heads/main", "two\n", false)
	if err != nil {
		t.Fatal(err)
	}
	paths, err := repo.GetFilePathsChangedByCommit(c2)
	if err != nil {
		t.Fatal(err)
	}
	got := map[string]bool{}
	for _, p := range paths {
		got[p] = true
	}
	t.Logf("paths reported: %q", paths)
	for _, n := range names {
		if !got[n] {
			t.Errorf("REPLAYED: changed path %q is not reported verbatim", n)
		}
	}
}
