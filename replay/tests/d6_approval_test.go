// Replay of obligation (*Attestations).GetGitHubPullRequestApprovalAttestationFor#post.namesChange (C09):
// a code-review approval stored at the path of ANOTHER change is returned for that other change.
package attestations

import (
	"encoding/base64"
	"path"
	"testing"

	githubv01 "github.com/gittuf/gittuf/internal/attestations/github/v01"
	"github.com/gittuf/gittuf/pkg/gitinterface"
)

func TestReplayD6(t *testing.T) {
	ref := "refs/heads/main"
	zero := gitinterface.ZeroHash.String()
	other := "1111111111111111111111111111111111111111"
	app := "github"
	env := createGitHubPullRequestApprovalAttestationEnvelope(t, ref, zero, zero, []string{"jane.doe@example.com"})
	repo := gitinterface.CreateTestGitRepository(t, t.TempDir(), false)
	a := &Attestations{}
	if err := a.SetGitHubPullRequestApprovalAttestation(repo, env, "https://github.com", 1, app, ref, zero, zero); err != nil {
		t.Fatal(err)
	}
	enc := base64.URLEncoding.EncodeToString([]byte(app))
	good := path.Join(GitHubPullRequestApprovalAttestationPath(ref, zero, zero), enc)
	// the same signed blob, stored at the path of a different change (ref, zero -> other)
	a.codeReviewApprovalAttestations[path.Join(GitHubPullRequestApprovalAttestationPath(ref, zero, other), enc)] = a.codeReviewApprovalAttestations[good]
	got, err := a.GetGitHubPullRequestApprovalAttestationFor(repo, app, ref, zero, other)
	if err == nil {
		verr := githubv01.ValidatePullRequestApproval(got, ref, zero, other)
		t.Errorf("REPLAYED: approval for (%s,%s->%s) returned for change (%s,%s->%s); validating it against the requested change says: %v", ref, zero, zero, ref, zero, other, verr)
	}
}
