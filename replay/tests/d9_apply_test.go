// Replay of obligation Apply#post.policyRefRestoredOnError@ret37 (C12/C16):
// a storage fault on the log write of a FIRST-EVER Apply leaves refs/gittuf/policy set with
// no log entry; every retry then answers ErrInvalidPolicy.
package policy

import (
	"errors"
	"testing"

	"github.com/gittuf/gittuf/internal/gitstoretest"
	"github.com/gittuf/gittuf/pkg/gitinterface"
	"github.com/gittuf/gittuf/pkg/githash"
)

type failRSLCommit struct {
	*gitstoretest.FakeStorer
	fail bool
}

func (f *failRSLCommit) Commit(treeID githash.Hash, targetRef, message string, sign bool) (githash.Hash, error) {
	if f.fail && targetRef == "refs/gittuf/reference-state-log" {
		return nil, errors.New("injected storage fault")
	}
	return f.FakeStorer.Commit(treeID, targetRef, message, sign)
}

func TestReplayD9Apply(t *testing.T) {
	state := createTestStateWithOnlyRoot(t)
	repo := gitinterface.CreateTestGitRepository(t, t.TempDir(), false)
	state.repository = repo
	if err := state.Commit(repo, "Create test state", true, false); err != nil {
		t.Fatal(err)
	}
	fs := &failRSLCommit{FakeStorer: &gitstoretest.FakeStorer{Storer: repo}, fail: true}
	err := Apply(testCtx, fs, false)
	if err == nil {
		t.Fatal("expected the injected fault to be reported")
	}
	_, refErr := repo.GetReference(PolicyRef)
	fs.fail = false
	retry := Apply(testCtx, fs, false)
	t.Logf("faulted Apply: %v; policy ref after fault exists: %v; retry after the fault cleared: %v", err, refErr == nil, retry)
	if refErr == nil {
		t.Errorf("REPLAYED: failed first-ever Apply left %s set without a log entry", PolicyRef)
	}
	if retry != nil {
		t.Errorf("REPLAYED: retry once the fault cleared fails: %v", retry)
	}
}
