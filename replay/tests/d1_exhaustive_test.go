// Replay of obligation verifyGitObjectAndAttestationsUsingVerifiers#post.notByExhaustiveVerifier (C11/C01):
// with any global rule present the exhaustive verifier is consulted first and "accepts" without
// counting anyone, so a change signed by a key no rule trusts is authorized.
package policy

import (
	"testing"

	"github.com/gittuf/gittuf/internal/signerverifier/gpg"
	"github.com/gittuf/gittuf/internal/tuf"
	tufv01 "github.com/gittuf/gittuf/internal/tuf/v01"
	"github.com/gittuf/gittuf/pkg/gitinterface"
)

func TestReplayD1(t *testing.T) {
	repo := gitinterface.CreateTestGitRepository(t, t.TempDir(), false)
	treeBuilder := gitinterface.NewTreeBuilder(repo)
	emptyTreeID, err := treeBuilder.WriteTreeFromEntries(nil)
	if err != nil {
		t.Fatal(err)
	}
	// a commit signed by the "unauthorized" test key
	commitID, err := repo.CommitUsingSpecificKey(emptyTreeID, "refs/heads/main", "change\n", gpgUnauthorizedKeyBytes)
	if err != nil {
		t.Fatal(err)
	}
	gpgKeyR, err := gpg.LoadGPGKeyFromBytes(gpgPubKeyBytes)
	if err != nil {
		t.Fatal(err)
	}
	trusted := tufv01.NewKeyFromSSLibKey(gpgKeyR)
	rule := &SignatureVerifier{repository: repo, name: "protect-main", principals: []tuf.Principal{trusted}, threshold: 1}
	exhaustive := &SignatureVerifier{repository: repo, name: tuf.ExhaustiveVerifierName, principals: []tuf.Principal{trusted}, threshold: 1, verifyExhaustively: true}

	_, _, _, errRuleOnly := verifyGitObjectAndAttestationsUsingVerifiers(testCtx, []*SignatureVerifier{rule}, commitID, nil, nil, nil, false)
	name, acc, _, errWithGlobal := verifyGitObjectAndAttestationsUsingVerifiers(testCtx, []*SignatureVerifier{exhaustive, rule}, commitID, nil, nil, nil, false)
	n := -1
	if acc != nil {
		n = acc.Len()
	}
	t.Logf("rule alone: %v; with the exhaustive verifier first (what FindVerifiersForPath returns once a global rule exists): err=%v verifiedUsing=%q principals=%d", errRuleOnly, errWithGlobal, name, n)
	if errRuleOnly == nil {
		t.Fatal("setup error: the rule alone must reject the unauthorized signer")
	}
	if errWithGlobal == nil {
		t.Errorf("REPLAYED: change signed by an untrusted key is authorized by %q with %d principals", name, n)
	}
}
