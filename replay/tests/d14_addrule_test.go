// Replay of obligation (*TargetsMetadata).AddRule#post.newRuleWellFormed (C13): a rule whose threshold
// exceeds the number of DISTINCT principals listed is accepted.
package v02

import (
	"testing"

	"github.com/gittuf/gittuf/internal/signerverifier/ssh"
)

func TestReplayD14(t *testing.T) {
	targets := NewTargetsMetadata()
	key := NewKeyFromSSLibKey(ssh.NewKeyFromBytes(t, rootPubKeyBytes))
	if err := targets.AddPrincipal(key); err != nil {
		t.Fatal(err)
	}
	err := targets.AddRule("r", []string{key.KeyID, key.KeyID}, []string{"git:refs/heads/main"}, 2)
	if err == nil {
		rule := targets.Delegations.Roles[0]
		t.Errorf("REPLAYED: rule accepted with threshold %d but only %d distinct principal(s)", rule.Threshold, rule.PrincipalIDs.Len())
	}
}
