package rsl

func ResetCacheForReplay() { newRSLCache() }
