#!/usr/bin/env python3
# Regenerates MANIFEST.json from the table below (kept in one place so it stays valid).
import json,subprocess
ids=[json.loads(l)['id'] for l in open('/verif/properties.jsonl')]
TECH="contract-based deductive verification of the real code (gvc: contracts as //@ comments -> go/ssa weakest-precondition style VCs -> z3 4.8.12 / z3 5.1.0 / cvc5 1.0.3)"
claims={
 "C03":("proof","Every recording primitive of pkg/rsl (commitEntry*, the three setEntryNumber, the six Commit/CommitUsingSpecificKey methods) is proved, for all store states and all entries, to append exactly one well-formed entry whose parent is the previous tip and whose number follows it, to leave the store untouched on error, and (annotations) to be refused unless every named id is a well-formed entry. Unbounded: one SMT obligation per clause per return path.",
        "Storer interface methods have assumed contracts (atomic Commit, content-addressed objects); the text<->fields round trip of createCommitMessage is assumed here (state-machine half proved under C14); higher-level recorders (policy.Apply, attestations.Commit, propagation) are not yet under contract; gitinterface.Commit against git is assumed."),
 "C04":("proof","GetEntry, GetLatestEntry, GetParentForEntry, RefersTo, SkippedBy, filterAnnotationsForRelevantAnnotations, isRelevantGittufRef are proved against the ghost commit-graph model for arbitrary (including tampered) graphs: results are exactly the parsed entry of the commit, the parent step fails closed on 0 or >1 parents, malformed parent or number break, and annotation filtering returns exactly the annotations that refer to the entry.",
        "The looping readers (GetLatestReferenceUpdaterEntry, GetFirst*, ranges) are not yet under contract; parse functions are used by contract (proved under C14 at line level); the process-wide memo is covered by monitor contracts (writers establish, readers assume; immutability of cached entries assumed)."),
 "C08":("proof","The persistent-cache index functions (binary search wrappers Find*/Has*, the attestation watermark) are proved to return exactly the floor entry / range of a sorted index for every index content and every query, with frames (nothing but the watermark changes).",
        "slices.BinarySearchFunc has an assumed contract (specialised to the by-number comparator, itself proved); Insert*, the searcher refinement (cache vs regular) and the checkpoint lemma are not yet under contract; cacheFresh is a precondition nobody establishes (design finding D4, not yet replayed)."),
 "C14":("proof","entryBody and the three entry parsers are proved, for every text (arbitrary line sequence; strings.Split/Cut/TrimSpace uninterpreted), to accept only texts whose known keys occur in the required order, each at most once, with every result field equal to the value of THE line carrying its key (so one text cannot yield two values), to return no partial entry on error and never to index out of range.",
        "Library string functions are uninterpreted (results hold for any Split/Cut/TrimSpace); hex/ParseUint are modelled by uninterpreted (ok,value) functions; pem.Decode is external; the write->read round trip (createCommitMessage) is not yet proved."),
 "C16":("proof","For the RSL recording primitives: every storage call may fail (each Storer contract has an error outcome that changes nothing and bumps a ghost fault counter); proved for all fault positions at once: a fault is always reported, the store is unchanged on error, and a successful run appends exactly one correctly numbered entry. Found and fixed D21 (unreadable tip treated as empty log).",
        "Only pkg/rsl recorders so far; policy/attestation/staging operations (design findings D9) not yet under contract; crash points not modelled yet."),
}
checks=[]
for pid,(cat,text,note) in claims.items():
    checks.append({"property_id":pid,"quick_cmd":f"./check {pid} --tier quick","thorough_cmd":f"./check {pid} --tier thorough","evidence_file":f"/verif/evidence/{pid}.json",
      "replay_cmd_template":"./bin/gvc replay {path}","engine":"gvc","level_claimed":{"category":cat,"text":text,"design_ref":"DESIGN.md section 5 "+pid},"level_note":note,"technique":TECH})
hooks=subprocess.run("git -C /repo log --format=%h --grep '^verif:'",shell=True,capture_output=True,text=True).stdout.split()
m={"version":1,"setup_cmd":"./setup.sh",
"hooks":{"guard":"verif","enable":"contracts live in comment-only zz_contracts_verif.go files (//go:build verif); gvc loads packages with -tags=verif","baseline_off_cmd":"cd /repo && PATH=/opt/veriftools/go1.26.8/bin:$PATH GOTOOLCHAIN=local GOFLAGS=-mod=mod GOPROXY=off GOSUMDB=off go test -json -vet=off -count=1 -timeout 25m ./...","source_commits":hooks,"add_only":True},
"engines":[{"name":"gvc","path":"/verif/gvc","serves_properties":sorted(claims),"kind_free_text":"contract-based deductive verifier for Go written for this task: //@ contracts -> go/ssa symbolic execution with loop invariants -> one SMT-LIB query per obligation, raced on z3 4.8.12 / z3 5.1.0 / cvc5 1.0.3"}],
"checks":checks,
"notes":"Build in progress; see DESIGN.md. Properties without a check are listed under not_applicable with the reason (most: contracts not written yet).",
"not_applicable":[{"property_id":i,"reason":"no check registered yet: contracts for the functions this property depends on are not written/discharged yet (see DESIGN.md section 5 for the plan)"} for i in ids if i not in claims]}
json.dump(m,open('/verif/MANIFEST.json','w'),indent=1)
print("ok",sorted(claims))
